package verifharness

import (
	"bytes"
	"fmt"
	"net"
	"os"
	"path/filepath"
	"strings"
	"time"

	"github.com/mimecast/dtail/internal/config"
	"github.com/mimecast/dtail/internal/lcontext"

	gossh "golang.org/x/crypto/ssh"
	"golang.org/x/crypto/ssh/knownhosts"
)

// ServerCfg is the server-side configuration a scenario varies.
type ServerCfg struct {
	MLL      int `json:"mll"`
	MaxCats  int `json:"max_cats"`
	MaxTails int `json:"max_tails"`
	MaxConns int `json:"max_conns"`
}

func (c ServerCfg) apply() {
	if c.MLL > 0 {
		config.Server.MaxLineLength = c.MLL
	}
	if c.MaxCats > 0 {
		config.Server.MaxConcurrentCats = c.MaxCats
	}
	if c.MaxTails > 0 {
		config.Server.MaxConcurrentTails = c.MaxTails
	}
	if c.MaxConns > 0 {
		config.Server.MaxConnections = c.MaxConns
	}
}

const simUser = "simuser"

// StartSSHWorld starts one dserver per host name, installs the user's key and
// a known_hosts file that already trusts every server.
func (w *World) StartSSHWorld(hosts []string, cfg ServerCfg, extra func()) (keyPath string) {
	w.SetupServerConfig(func() {
		cfg.apply()
		if extra != nil {
			extra()
		}
	})
	w.Net.AddHost("clienthost", net.IPv4(10, 0, 1, 1))
	signer, err := gossh.ParsePrivateKey(hostKey())
	must(err)
	var kh bytes.Buffer
	for i, h := range hosts {
		ip := net.IPv4(10, 0, 0, byte(i+1))
		w.StartServer(h, ip)
		kh.WriteString(knownhosts.Line([]string{fmt.Sprintf("%s:%d", h, config.DefaultSSHPort)}, signer.PublicKey()) + "\n")
		kh.WriteString(knownhosts.Line([]string{fmt.Sprintf("%s:%d", ip, config.DefaultSSHPort)}, signer.PublicKey()) + "\n")
	}
	must(os.WriteFile(filepath.Join(w.Dir, "home", ".ssh", "known_hosts"), kh.Bytes(), 0600))
	keyPath = w.InstallUserKey(simUser, Key(0))
	for tries := 0; ; tries++ {
		ready := true
		for _, sp := range w.Servers {
			if !sp.Ready || !w.Net.HasListener(fmt.Sprintf("%s:%d", sp.Node.Hostname, config.DefaultSSHPort)) {
				ready = false
			}
		}
		if ready {
			break
		}
		if tries > 1000 {
			panic(abortRun("servers did not start"))
		}
		w.Sleep(time.Millisecond)
	}
	return keyPath
}

// ReadSpec describes one cat/grep/tail client invocation.
type ReadSpec struct {
	Kind      string   `json:"kind"`      // cat | grep | tail
	Transport string   `json:"transport"` // serverless | ssh
	Hosts     []string `json:"hosts,omitempty"`
	Plain     bool     `json:"plain"`
	Quiet     bool     `json:"quiet,omitempty"`
	Files     []string `json:"files"` // paths relative to the data dir (may contain globs)
	Regex     string   `json:"regex,omitempty"`
	Invert    bool     `json:"invert,omitempty"`
	Before    int      `json:"before,omitempty"`
	After     int      `json:"after,omitempty"`
	Max       int      `json:"max,omitempty"`
	NoColor   bool     `json:"no_color"`
	LogLevel  string   `json:"log_level,omitempty"` // client log level ("" = default info)
	AskHosts  bool     `json:"ask_hosts,omitempty"` // do not pass --trustAllHosts: unknown host keys are prompted for
}

// MakeReadClient builds the ClientProc for a ReadSpec.
func (w *World) MakeReadClient(spec ReadSpec, keyPath string) *ClientProc {
	a := DefaultArgs()
	a.Plain = spec.Plain
	a.Quiet = spec.Quiet
	a.NoColor = spec.NoColor
	if spec.LogLevel != "" {
		a.LogLevel = spec.LogLevel
	}
	a.RegexStr = spec.Regex
	a.RegexInvert = spec.Invert
	a.LContext = lcontext.LContext{BeforeContext: spec.Before, AfterContext: spec.After, MaxCount: spec.Max}
	var files []string
	for _, f := range spec.Files {
		if filepath.IsAbs(f) {
			files = append(files, f)
		} else {
			files = append(files, w.Data(f))
		}
	}
	a.What = strings.Join(files, ",")
	if spec.Transport == "ssh" {
		a.ServersStr = strings.Join(spec.Hosts, ",")
		a.SSHPrivateKeyFilePath = keyPath
		a.TrustAllHosts = !spec.AskHosts
	}
	return &ClientProc{Kind: spec.Kind, Args: a}
}
