package verifharness

import (
	"bytes"
	"fmt"
	"os"
	"strings"
	"testing"
	"time"

	"github.com/mimecast/dtail/internal/config"
	"github.com/mimecast/dtail/internal/verifsim"
	"github.com/mimecast/dtail/internal/verifsimnet"

	gossh "golang.org/x/crypto/ssh"
)

// C13 — concurrent file reads never exceed the configured limits (DESIGN.md
// §5 C13). History/schedule property of the shared limiter semaphores.

type C13Session struct {
	Mode      string `json:"mode"`  // cat | tail | grepmax (grep --max 1: the filter cancels its reader) | mapcat (map + cat: reads feed the aggregator)
	Files     int    `json:"files"` // files matched by the session's glob
	Lines     int    `json:"lines"` // lines per file
	StartMs   int    `json:"start_ms"`
	ResetAtMs int    `json:"reset_at_ms"` // abrupt disconnect this long after the command (-1: never)
	CloseAtMs int    `json:"close_at_ms"` // orderly close (-1: never; tails are always ended by one of the two)
	PaceMs    int    `json:"pace_ms"`
	// BadGz: the session's files are named *.gz but are not gzip data, so the
	// reader fails and (for a follow) is retried every 2 s
	BadGz bool `json:"bad_gz,omitempty"`
	// Denied: further entries matched by the session's glob that must not be
	// served (a file the permission rules deny, a directory, a dangling symlink)
	Denied int `json:"denied,omitempty"`
}

type C13Scenario struct {
	ScenarioBase
	Cfg           ServerCfg    `json:"cfg"`
	Sessions      []C13Session `json:"sessions"`
	ReaderStallMs int          `json:"reader_stall_ms"` // per line, keeps reads open in simulated time
	Wave2         bool         `json:"wave2"`
	// HoldS: how long a second-wave reader sits on its first line (5 s; 70 s = a
	// read queued for more than a minute must still wait for a slot)
	HoldS int                 `json:"hold_s,omitempty"`
	Net   verifsimnet.Profile `json:"net"`
}

func c13Gen(r *Rand, tier string, i int) Scenario {
	sc := &C13Scenario{}
	sc.Sched = GenSched(r)
	if r.Bool(0.5) {
		sc.Sched.BiasSites = []string{"server/handlers/readcommand.go"}
		sc.Sched.BiasP = PickOf(r, 0.2, 0.5)
	}
	sc.Cfg.MaxCats = PickOf(r, 1, 2, 2, 3)
	sc.Cfg.MaxTails = PickOf(r, 1, 2)
	sc.Cfg.MaxConns = 50
	sc.ReaderStallMs = PickOf(r, 0, 1, 1, 2)
	n := r.Range(2, 8)
	for k := 0; k < n; k++ {
		s := C13Session{Mode: "cat", Files: PickOf(r, 1, 1, 2, 3, 6), Lines: PickOf(r, 5, 40, 120, 250), StartMs: PickOf(r, 0, 0, 0, 1, 5, 50),
			ResetAtMs: -1, CloseAtMs: -1, PaceMs: PickOf(r, 0, 0, 1, 5)}
		if r.Bool(0.2) {
			s.Mode = PickOf(r, "grepmax", "mapcat", "timeoutcat")
		} else if r.Bool(0.35) {
			s.Mode = "tail"
			s.Files = PickOf(r, 1, 2, 3)
			s.Lines = 5
		}
		if r.Bool(0.2) {
			s.BadGz = true
		} else if r.Bool(0.25) {
			s.Denied = PickOf(r, 1, 2, 3, 4)
		}
		switch {
		case s.Mode == "timeoutcat":
			// ends while its read may still be queued or running
			if r.Bool(0.5) {
				s.ResetAtMs = PickOf(r, 50, 200, 500, 2000)
			} else {
				s.CloseAtMs = PickOf(r, 50, 200, 500, 2000)
			}
		case s.Mode == "tail":
			if s.BadGz {
				// end it during one of the retry pauses (they start after ~0, 2, 4 s)
				if r.Bool(0.5) {
					s.ResetAtMs = PickOf(r, 500, 1000, 2500, 3000, 4500)
				} else {
					s.CloseAtMs = PickOf(r, 500, 1000, 2500, 3000, 4500)
				}
				break
			}
			end := PickOf(r, r.Intn(400), r.Intn(400), 3000, 6000, 8000)
			if r.Bool(0.5) {
				s.ResetAtMs = end
			} else {
				s.CloseAtMs = end
			}
		case r.Bool(0.45):
			if r.Bool(0.6) {
				s.ResetAtMs = PickOf(r, 0, 1, 2, 5, 10, 30, 80, 200)
			} else {
				s.CloseAtMs = PickOf(r, 0, 1, 2, 5, 10, 30, 80, 200)
			}
		}
		sc.Sessions = append(sc.Sessions, s)
	}
	sc.Wave2 = r.Bool(0.7)
	sc.HoldS = PickOf(r, 5, 5, 5, 70)
	sc.Net = verifsimnet.Profile{LatencyMs: PickOf(r, 0, 1, 3)}
	return sc
}

func c13FileLine(sess, file, n int) string {
	return fmt.Sprintf("R%d:%d:%d:%s", sess, file, n, strings.Repeat("z", (n*5+file)%40))
}

func c13Run(t *testing.T, s Scenario, src verifsim.DecisionSource, keep bool) *RunResult {
	sc := s.(*C13Scenario)
	res := &RunResult{Info: map[string]any{}}
	np := sc.Net
	wave2 := false
	held := map[string]bool{}
	var stalls []*verifsim.StallRule
	if sc.ReaderStallMs > 0 {
		stalls = append(stalls, StallSpec{Name: "reader.perline", Site: "io/fs/readfilelcontext.go", Suffix: "/ranged", From: 0, To: -1, DurMs: sc.ReaderStallMs}.Rule())
	}
	// wave 2: every reader that got a slot sits on its first line for 5 s
	stalls = append(stalls, &verifsim.StallRule{Name: "reader.hold", Match: func(site string, hit int, g *verifsim.G) time.Duration {
		if !wave2 || !strings.Contains(site, "io/fs/readfilelcontext.go") || !strings.HasSuffix(site, "/ranged") {
			return 0
		}
		if held[g.Key] {
			return 0
		}
		held[g.Key] = true
		if sc.HoldS > 0 {
			return time.Duration(sc.HoldS) * time.Second
		}
		return 5 * time.Second
	}})
	var violation, vmsg string
	maxCat, maxTail := 0, 0
	var dataDir string
	check := func(w *World) (int, int) {
		cats, tails := 0, 0
		seen := map[string]bool{}
		for _, p := range openReadFDs(dataDir) {
			// distinct paths, not descriptors: the periodic truncation check of a
			// follow opens the followed path a second time for an instant; that
			// is the same read (false alarm seen with statement-level preemption)
			if seen[p] {
				continue
			}
			seen[p] = true
			if strings.Contains(p, "/c") {
				cats++
			} else if strings.Contains(p, "/t") {
				tails++
			}
		}
		return cats, tails
	}
	stepCtr := 0
	opts := RunOpts{Src: src, KeepLabels: keep, MaxFake: 10 * time.Minute, Stalls: stalls, Net: &np,
		OnStep: func(w *World, site string) string {
			stepCtr++
			if dataDir == "" || violation != "" {
				return ""
			}
			if !strings.Contains(site, "readcommand.go") && !strings.Contains(site, "readfile.go") && stepCtr%50 != 0 {
				return ""
			}
			cats, tails := check(w)
			if cats > maxCat {
				maxCat = cats
			}
			if tails > maxTail {
				maxTail = tails
			}
			if cats > sc.Cfg.MaxCats {
				violation, vmsg = "cat-limit-exceeded", fmt.Sprintf("%d cat/grep files are being read at once, MaxConcurrentCats is %d (after step at %s)", cats, sc.Cfg.MaxCats, site)
				return violation
			}
			if tails > sc.Cfg.MaxTails {
				violation, vmsg = "tail-limit-exceeded", fmt.Sprintf("%d files are being followed at once, MaxConcurrentTails is %d (after step at %s)", tails, sc.Cfg.MaxTails, site)
				return violation
			}
			return ""
		}}
	type sessState struct {
		rs        *RawSession
		cancelled bool
		failed    string
		got       map[int]int // file -> lines received in order
		bad       string
	}
	states := make([]*sessState, len(sc.Sessions))
	wave2Count := -1
	var wave2Unfinished int
	res.Outcome = RunSim(t, opts, func(w *World) {
		for si, ss := range sc.Sessions {
			for f := 0; f < ss.Files; f++ {
				var b bytes.Buffer
				for n := 1; n <= ss.Lines; n++ {
					b.WriteString(c13FileLine(si, f, n))
					b.WriteByte('\n')
				}
				prefix := "c"
				if ss.Mode == "tail" {
					prefix = "t"
				}
				ext := ""
				if ss.BadGz {
					ext = ".gz"
				}
				w.WriteFile(fmt.Sprintf("s%d/%s%d.log%s", si, prefix, f, ext), b.Bytes())
			}
			for d := 0; d < ss.Denied; d++ {
				prefix := "c"
				if ss.Mode == "tail" {
					prefix = "t"
				}
				switch d % 3 {
				case 0: // denied by the '!secret' rule; sorts between the served files
					w.WriteFile(fmt.Sprintf("s%d/%s0secret%d.log", si, prefix, d), []byte("SECRET\n"))
				case 1:
					must(os.MkdirAll(w.Data(fmt.Sprintf("s%d/%s1dir%d.log", si, prefix, d)), 0755))
				case 2:
					must(os.MkdirAll(w.Data(fmt.Sprintf("s%d", si)), 0755))
					must(os.Symlink(w.Data("nowhere"), w.Data(fmt.Sprintf("s%d/%s2dangling%d.log", si, prefix, d))))
				}
			}
		}
		w.StartSSHWorld([]string{"srv1"}, sc.Cfg, func() {
			config.Server.Permissions.Default = []string{"^/.*", "!secret"}
			config.Server.Permissions.Users = map[string][]string{}
		})
		dataDir = w.Dir + "/data"
		auth := []gossh.AuthMethod{gossh.PublicKeys(Key(0).Signer)}
		done := make(chan int, len(sc.Sessions)+16)
		runSession := func(si int, ss C13Session, dir string, st *sessState) {
			defer func() { done <- si }()
			w.Sleep(time.Duration(ss.StartMs) * time.Millisecond)
			rs := w.RawDial(fmt.Sprintf("s%d", si), "srv1", simUser, auth, 10*time.Second)
			st.rs = rs
			if rs.DialErr != nil {
				st.failed = "dial: " + rs.DialErr.Error()
				return
			}
			rs.PaceMs = ss.PaceMs
			if err := rs.Shell(); err != nil {
				st.failed = "shell: " + err.Error()
				return
			}
			prefix := "c"
			if ss.Mode == "tail" {
				prefix = "t"
			}
			glob := fmt.Sprintf("%s/%s/%s*.log", w.Dir+"/data", dir, prefix)
			if ss.BadGz {
				glob += ".gz"
			}
			switch ss.Mode {
			case "grepmax":
				rs.Command(fmt.Sprintf("grep:max=1 %s regex:default zz", glob))
			case "mapcat":
				rs.Command("map select count($line) group by $hostname interval 1 logformat generic")
				rs.Command(CatCommand("cat", glob, ""))
			case "timeoutcat":
				// what `dmap --timeout N` sends: the read wrapped in a timeout command
				// (this tree answers "unknown command"; the session is then closed by
				// the scenario like any other)
				rs.Command("timeout 120 " + CatCommand("cat", glob, ""))
			default:
				rs.Command(CatCommand(ss.Mode, glob, ""))
			}
			start := time.Now()
			deadline := 5 * time.Minute
			for {
				el := time.Since(start)
				if ss.ResetAtMs >= 0 && el >= time.Duration(ss.ResetAtMs)*time.Millisecond {
					st.cancelled = true
					rs.Conn.Reset()
					w.Sim.Fault("cancel.session")
					return
				}
				if ss.CloseAtMs >= 0 && el >= time.Duration(ss.CloseAtMs)*time.Millisecond {
					st.cancelled = true
					rs.Close()
					w.Sim.Fault("cancel.session")
					return
				}
				msgs := rs.Messages()
				for _, m := range msgs {
					if strings.HasPrefix(m, ".syn close connection") {
						rs.AckClose()
						w.Sleep(20 * time.Millisecond)
						rs.Close()
						return
					}
				}
				if rs.Ended() || el > deadline {
					return
				}
				if el < time.Second {
					w.Sleep(time.Millisecond)
				} else {
					w.Sleep(25 * time.Millisecond) // long holds: keep the step count bounded
				}
			}
		}
		for si, ss := range sc.Sessions {
			si, ss := si, ss
			states[si] = &sessState{got: map[int]int{}}
			w.Sim.GoOn(w.ClientNode, "harness/session", func() { runSession(si, ss, fmt.Sprintf("s%d", si), states[si]) })
		}
		for range sc.Sessions {
			verifsim.Yield("harness/waitsessions")
			<-done
		}
		w.Sleep(2 * time.Second)
		if violation == "" {
			// every session has ended (by itself, closed or reset) two seconds ago:
			// none of their reads may still hold a file (and so a slot)
			if c, t := check(w); c+t > 0 {
				violation, vmsg = "read-outlives-session", fmt.Sprintf("%d cat and %d tail files are still open 2 s after every session of the scenario had ended", c, t)
			}
		}
		if sc.Wave2 && violation == "" {
			// second wave: 2*limit sessions, one long file each; every reader that
			// obtains a slot holds it for 5 s, so after 2.5 s exactly `limit` files
			// must be open: fewer = a slot leaked, more = one was released twice
			n2 := 2 * sc.Cfg.MaxCats
			base := len(sc.Sessions)
			for k := 0; k < n2; k++ {
				var b bytes.Buffer
				for n := 1; n <= 30; n++ {
					b.WriteString(c13FileLine(base+k, 0, n))
					b.WriteByte('\n')
				}
				w.WriteFile(fmt.Sprintf("w%d/c0.log", k), b.Bytes())
			}
			wave2 = true
			w2 := make([]*sessState, n2)
			for k := 0; k < n2; k++ {
				k := k
				w2[k] = &sessState{got: map[int]int{}}
				w.Sim.GoOn(w.ClientNode, "harness/session2", func() {
					runSession(base+k, C13Session{Mode: "cat", Files: 1, Lines: 30, ResetAtMs: -1, CloseAtMs: -1}, fmt.Sprintf("w%d", k), w2[k])
				})
			}
			w.Sleep(2500 * time.Millisecond)
			wave2Count, _ = check(w)
			if sc.HoldS > 60 && wave2Count == sc.Cfg.MaxCats {
				// the readers still hold their slots after a minute: the queued reads
				// must still be waiting
				w.Sleep(63 * time.Second)
				if c, _ := check(w); c != sc.Cfg.MaxCats {
					wave2Count = c
				}
			}
			for k := 0; k < n2; k++ {
				verifsim.Yield("harness/waitsessions2")
				<-done
			}
			for k := 0; k < n2; k++ {
				if w2[k].failed != "" || countLines(w2[k].rs) != 30 {
					wave2Unfinished++
				}
			}
		}
	})
	res.NonTrivial = len(sc.Sessions) >= 2 && (maxCat >= sc.Cfg.MaxCats || maxTail >= sc.Cfg.MaxTails)
	res.Info["max_cat"], res.Info["max_tail"] = maxCat, maxTail
	if maxCat >= sc.Cfg.MaxCats {
		res.Probes = addProbe(res.Probes, "limiter.cat-limit-reached", 1)
	}
	if res.Panic != "" {
		res.Class, res.Message = "panic", res.Panic
		return res
	}
	if violation != "" {
		res.Class, res.Message = violation, vmsg
		res.Aborted = ""
		return res
	}
	if res.Aborted != "" {
		if res.Aborted == "timecap" {
			res.Class, res.Message = "no-progress", "sessions did not finish within the simulated time bound (a queued read never proceeded)"
		}
		return res
	}
	// liveness: every cat session that was not cancelled received all lines of all its files
	for si, ss := range sc.Sessions {
		st := states[si]
		if st == nil || st.cancelled || ss.Mode != "cat" || ss.BadGz {
			continue
		}
		if st.failed != "" {
			res.Class, res.Message = "session-failed", fmt.Sprintf("session %d: %s", si, st.failed)
			return res
		}
		want := ss.Files * ss.Lines
		if got := countLines(st.rs); got != want {
			res.Class, res.Message = "queued-read-starved", fmt.Sprintf("session %d (cat, %d files x %d lines, not cancelled) received %d of %d lines", si, ss.Files, ss.Lines, got, want)
			return res
		}
	}
	if sc.Wave2 {
		if wave2Count > sc.Cfg.MaxCats {
			res.Class, res.Message = "cat-limit-exceeded", fmt.Sprintf("second wave: %d files open at once, limit %d", wave2Count, sc.Cfg.MaxCats)
			return res
		}
		if wave2Count >= 0 && wave2Count < sc.Cfg.MaxCats {
			res.Class, res.Message = "slot-leaked", fmt.Sprintf("second wave of %d long reads: only %d files open at once although MaxConcurrentCats is %d (a slot was never given back)",
				2*sc.Cfg.MaxCats, wave2Count, sc.Cfg.MaxCats)
			return res
		}
		if wave2Unfinished > 0 {
			res.Class, res.Message = "queued-read-starved", fmt.Sprintf("second wave: %d sessions did not receive their file", wave2Unfinished)
			return res
		}
	}
	return res
}

func countLines(rs *RawSession) int {
	if rs == nil {
		return 0
	}
	n := 0
	for _, m := range rs.Messages() {
		if strings.HasPrefix(m, "REMOTE|") {
			n++
		}
	}
	return n
}

func c13Shape(s Scenario) string {
	sc := s.(*C13Scenario)
	var ss []string
	for _, x := range sc.Sessions {
		ss = append(ss, fmt.Sprintf("%s%dx%d@%d/r%d/c%d/p%d/z%v/d%d", x.Mode, x.Files, x.Lines, x.StartMs, x.ResetAtMs, x.CloseAtMs, x.PaceMs, x.BadGz, x.Denied))
	}
	return fmt.Sprintf("cats%d/tails%d/stall%d/w2%v/hold%d/%s", sc.Cfg.MaxCats, sc.Cfg.MaxTails, sc.ReaderStallMs, sc.Wave2, sc.HoldS, strings.Join(ss, ","))
}

func c13Sample(s Scenario) any {
	sc := s.(*C13Scenario)
	return map[string]any{"max_cats": sc.Cfg.MaxCats, "max_tails": sc.Cfg.MaxTails, "sessions": sc.Sessions, "reader_stall_ms": sc.ReaderStallMs,
		"second_wave": sc.Wave2, "net": sc.Net, "sched": sc.Sched}
}

func c13Shrink(s Scenario) []Scenario {
	sc := s.(*C13Scenario)
	var out []Scenario
	cl := func() *C13Scenario {
		n := *sc
		n.Sessions = append([]C13Session(nil), sc.Sessions...)
		return &n
	}
	for i := range sc.Sessions {
		n := cl()
		n.Sessions = append(n.Sessions[:i], n.Sessions[i+1:]...)
		if len(n.Sessions) > 0 {
			out = append(out, n)
		}
	}
	for i, x := range sc.Sessions {
		if x.Files > 1 {
			n := cl()
			n.Sessions[i].Files = 1
			out = append(out, n)
		}
		if x.Lines > 5 {
			n := cl()
			n.Sessions[i].Lines = x.Lines / 2
			out = append(out, n)
		}
		if x.StartMs > 0 {
			n := cl()
			n.Sessions[i].StartMs = 0
			out = append(out, n)
		}
		if x.PaceMs > 0 {
			n := cl()
			n.Sessions[i].PaceMs = 0
			out = append(out, n)
		}
		if x.Denied > 0 {
			n := cl()
			n.Sessions[i].Denied = x.Denied - 1
			out = append(out, n)
		}
	}
	if sc.Wave2 {
		n := cl()
		n.Wave2 = false
		out = append(out, n)
	}
	n := cl()
	n.Sched = SchedProfile{Mode: "fifo"}
	out = append(out, n)
	return out
}

func init() {
	Register(&Prop{
		ID:    "C13",
		Level: "exploration",
		Rule: "seeded histories of 2-8 concurrent SSH sessions against one dserver with MaxConcurrentCats 1-3 and MaxConcurrentTails 1-2: cat sessions over globs of 1-6 files " +
			"(more files than slots; some globs also match entries that must not be served: a file denied by a permission rule, a directory, a dangling symlink), tail sessions, per-line reader stalls that keep reads open in simulated time, abrupt resets and orderly closes placed 0-400 ms after the " +
			"command (waiting at the limiter, just after acquisition, mid-read), schedule bias at the limiter select; a second wave of 2*limit long reads measures the number of " +
			"usable slots; invariant checked after every step touching readcommand.go/readfile.go: open scenario files (from /proc/self/fd) <= limit; " +
			"non-trivial = the cat or tail limit was actually reached; distinct = (scenario shape, schedule hash)",
		Real:        []string{"internal/server (real SSH server)", "internal/server/handlers (readCommand.read limiter logic)", "internal/io/fs", "x/crypto/ssh server side over simnet"},
		Stub:        []string{"the dtail client is replaced by harness-driven x/crypto/ssh client sessions that speak the wire protocol (the property is server-wide)", "TCP replaced by simnet"},
		Assumptions: []string{"each session reads its own files, so distinct open paths = distinct reads", "counting model instead of a linearizability checker: operations never overlap under the controller"},
		New:         func() Scenario { return &C13Scenario{} },
		Gen:         c13Gen,
		Run:         c13Run,
		Shrink:      c13Shrink,
		Shape:       c13Shape,
		Sample:      c13Sample,
		Triggers:    map[string]func(Scenario) (Scenario, bool){},
		MustProbes:  []string{"limiter.cat-limit-reached"},
	})
}
