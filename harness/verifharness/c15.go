package verifharness

import (
	"bytes"
	"fmt"
	"os"
	"sort"
	"strings"
	"syscall"
	"testing"
	"time"

	"github.com/mimecast/dtail/internal/clients"
	"github.com/mimecast/dtail/internal/verifsim"
)

// C15 — a mapreduce outfile is never observable half-written (DESIGN.md §5
// C15). Crash-point property: the state at every file-system yield of the
// result writer is inspected in every run, and chosen points really kill the
// client process before the next process of the history starts.

type C15Proc struct {
	Append   bool `json:"append"`
	NonCumul bool `json:"non_cumulative"`
	KillAt   int  `json:"kill_at"` // index of the FS-operation park at which the process is killed (-1: runs to completion)
	Lines    int  `json:"lines"`   // lines per data file for this process
	StallMs  int  `json:"stall_ms"`
	// DiskFullAt >= 0: the disk fills up during this process: its k-th write to the
	// outfile, its tmp or query file fails with ENOSPC (nothing written), and so
	// does every later one (-1: never; omitted in old files = 0,
	// so the generator stores k+1 and 0 means never)
	DiskFullAt int `json:"disk_full_at,omitempty"`
}

type C15Scenario struct {
	ScenarioBase
	Procs       []C15Proc `json:"procs"`
	PreExisting bool      `json:"pre_existing"` // a complete result of an earlier query already at the path
	Groups      int       `json:"groups"`
	// Symlink: the outfile path is a symbolic link (latest.csv -> dated/result.csv),
	// to the earlier result if there is one, dangling otherwise
	Symlink bool `json:"symlink,omitempty"`
}

const c15Header = "g,count(n),sum(n)"

func c15Gen(r *Rand, tier string, i int) Scenario {
	sc := &C15Scenario{}
	sc.Sched = GenSched(r)
	sc.Groups = PickOf(r, 1, 3, 5)
	sc.PreExisting = r.Bool(0.3)
	sc.Symlink = r.Bool(0.1)
	n := PickOf(r, 1, 1, 2, 2, 3, 4)
	allAppend := r.Bool(0.35)
	for k := 0; k < n; k++ {
		p := C15Proc{Append: allAppend || r.Bool(0.15), NonCumul: r.Bool(0.15), KillAt: -1, Lines: PickOf(r, 3, 20, 60, 150), StallMs: PickOf(r, 0, 0, 10, 30)}
		if r.Bool(0.6) && k < n-1 || r.Bool(0.2) {
			p.KillAt = PickOf(r, r.Intn(6), r.Intn(30), r.Intn(120))
		}
		if r.Bool(0.15) {
			p.DiskFullAt = 1 + PickOf(r, 0, 1, 2, r.Intn(8), r.Intn(40))
		}
		sc.Procs = append(sc.Procs, p)
	}
	return sc
}

func (sc *C15Scenario) rows(lines int) map[string]bool {
	cnt := map[string]int{}
	sum := map[string]int{}
	for n := 1; n <= lines; n++ {
		g := fmt.Sprintf("G%d", n%sc.Groups)
		cnt[g]++
		sum[g] += (n * 7) % 11
	}
	out := map[string]bool{}
	for g := range cnt {
		out[fmt.Sprintf("%s,%d,%f", g, cnt[g], float64(sum[g]))] = true
	}
	return out
}

// completeResult reports whether content is header + exactly the rows.
func completeResult(content []byte, rows map[string]bool) bool {
	if len(content) == 0 || content[len(content)-1] != '\n' {
		return false
	}
	lines := strings.Split(strings.TrimSuffix(string(content), "\n"), "\n")
	if lines[0] != c15Header || len(lines)-1 != len(rows) {
		return false
	}
	seen := map[string]bool{}
	for _, l := range lines[1:] {
		if !rows[l] || seen[l] {
			return false
		}
		seen[l] = true
	}
	return true
}

// wellFormed: header + rows of three comma separated fields, newline terminated.
func wellFormed(content []byte) bool {
	if len(content) == 0 || content[len(content)-1] != '\n' {
		return false
	}
	lines := strings.Split(strings.TrimSuffix(string(content), "\n"), "\n")
	if lines[0] != c15Header {
		return false
	}
	for _, l := range lines[1:] {
		if len(strings.Split(l, ",")) != 3 || l == c15Header {
			return false
		}
	}
	return true
}

func c15Run(t *testing.T, s Scenario, src verifsim.DecisionSource, keep bool) *RunResult {
	sc := s.(*C15Scenario)
	res := &RunResult{Info: map[string]any{}}
	violation, vmsg := "", ""
	fail := func(cls, msg string) {
		if violation == "" {
			violation, vmsg = cls, msg
		}
	}
	var outPath, query string
	cur := -1       // index of the running process
	var base []byte // content of the outfile when the current process started (nil: absent)
	baseExists := false
	fsParks := 0 // FS parks of the current process
	pointsInspected := 0
	kills := 0
	var procNode *verifsim.Node

	var baseQuery []byte // content of outfile.query when the current process started
	baseQueryExists := false
	inspect := func(where string) {
		if cur < 0 || outPath == "" {
			return
		}
		p := sc.Procs[cur]
		content, err := os.ReadFile(outPath)
		exists := err == nil
		pointsInspected++
		if exists {
			// beside an outfile there is a whole query text at any instant: the one
			// that was there when this run started or this run's (never a torn,
			// emptied or missing file)
			q, qerr := os.ReadFile(outPath + ".query")
			if !(qerr == nil && (string(q) == query || (baseQueryExists && bytes.Equal(q, baseQuery)))) && (baseQueryExists || !baseExists) {
				fail("query-file-mismatch", fmt.Sprintf("process %d at %s: the outfile exists but %s.query holds %q (error %v), neither this run's query text nor the one that was there before", cur, where, "outfile", trunc(string(q), 80), qerr))
				return
			}
		}
		if p.Append {
			if baseExists && (!exists || !bytes.HasPrefix(content, base)) {
				fail("append-altered-earlier-rows", fmt.Sprintf("process %d (append) at %s: the outfile no longer starts with the %d bytes it held before this run", cur, where, len(base)))
				return
			}
			if exists {
				n := 0
				for _, l := range strings.Split(string(content), "\n") {
					if l == c15Header {
						n++
					}
				}
				if n > 1 {
					fail("append-header-twice", fmt.Sprintf("process %d (append) at %s: the header line occurs %d times", cur, where, n))
				}
			}
			return
		}
		// non-append: absent | identical to what was there when this run started | complete result of this run
		if !exists {
			return
		}
		if baseExists && bytes.Equal(content, base) {
			return
		}
		ok := completeResult(content, sc.rows(p.Lines))
		if p.NonCumul {
			ok = wellFormed(content)
		}
		if !ok {
			fail("partial-outfile", fmt.Sprintf("process %d at %s: the outfile path holds %d bytes that are neither the earlier result nor the complete result of this run: %q",
				cur, where, len(content), trunc(string(content), 120)))
			return
		}
		q, err := os.ReadFile(outPath + ".query")
		if err != nil || string(q) != query {
			fail("query-file-mismatch", fmt.Sprintf("process %d at %s: the final result is in place but %s.query holds %q", cur, where, "outfile", trunc(string(q), 80)))
		}
	}

	diskWrites, diskFull := 0, false
	opts := RunOpts{Src: src, KeepLabels: keep, MaxFake: 20 * time.Minute,
		OnSutPanic: func(w *World, g *verifsim.G, msg string) bool {
			// dmap ends with a fatal error when it cannot write its result: with
			// the disk full that is the expected end of the process
			return diskFull && g.Node() == procNode && strings.Contains(msg, "no space left on device")
		},
		FSWriteFault: func(w *World, g *verifsim.G, path string, n int) (int, error) {
			if cur < 0 || g.Node() != procNode || sc.Procs[cur].DiskFullAt <= 0 || !strings.HasPrefix(path, outPath) {
				return 0, nil
			}
			diskWrites++
			if diskFull || diskWrites == sc.Procs[cur].DiskFullAt {
				diskFull = true
				// the whole write fails (no torn writes, as for kills: DESIGN §2.5)
				return 0, syscall.ENOSPC
			}
			return 0, nil
		},
		OnPark: func(w *World, g *verifsim.G) {
			site := g.Site()
			if cur < 0 || g.Node() != procNode || !strings.HasSuffix(site, "/fs") || !strings.Contains(site, "mapr/groupsetresult.go") {
				return
			}
			inspect(site)
			if sc.Procs[cur].KillAt == fsParks && !procNode.Dead() {
				w.Sim.Kill(procNode)
				kills++
			}
			fsParks++
		}}
	res.Outcome = RunSim(t, opts, func(w *World) {
		outPath = w.Dir + "/result.csv"
		target := outPath
		if sc.Symlink {
			must(os.MkdirAll(w.Dir+"/dated", 0755))
			must(os.Symlink("dated/result.csv", outPath))
			target = w.Dir + "/dated/result.csv"
		}
		if sc.PreExisting {
			// a complete result of an earlier (different) run
			var b bytes.Buffer
			b.WriteString(c15Header + "\n")
			for r := range sc.rows(7) {
				b.WriteString(r + "\n")
			}
			must(os.WriteFile(target, b.Bytes(), 0644))
			must(os.WriteFile(outPath+".query", []byte("select g,count(n),sum(n) group by g logformat generickv outfile "+outPath), 0644))
		}
		for pi, p := range sc.Procs {
			if violation != "" {
				break
			}
			var b bytes.Buffer
			for n := 1; n <= p.Lines; n++ {
				fmt.Fprintf(&b, "g=G%d|n=%d\n", n%sc.Groups, (n*7)%11)
			}
			w.WriteFile("in.log", b.Bytes())
			ap := ""
			if p.Append {
				ap = "append "
			}
			// consecutive runs differ in their query text (same result: there are at
			// most 5 groups)
			query = fmt.Sprintf("select g,count(n),sum(n) group by g%s interval 1 logformat generickv outfile %s%s", PickStr(pi, "", " limit 1000", " limit 999"), ap, outPath)
			a := DefaultArgs()
			a.NoColor = true
			a.QueryStr = query
			a.What = w.Data("in.log")
			a.Mode = 5
			proc := &ClientProc{Kind: "map", Args: a}
			if p.NonCumul {
				proc.MaprMode = int(clients.NonCumulativeMode)
			}
			base, _ = os.ReadFile(outPath)
			_, err := os.Stat(outPath)
			baseExists = err == nil
			baseQuery, err = os.ReadFile(outPath + ".query")
			baseQueryExists = err == nil
			fsParks = 0
			diskWrites, diskFull = 0, false
			procNode = w.Sim.NewNode(fmt.Sprintf("proc%d", pi), "client", "clienthost")
			cur = pi
			w.Sim.Stalls = nil
			if p.StallMs > 0 {
				w.Sim.Stalls = []*verifsim.StallRule{StallSpec{Name: "reader.perline", Site: "io/fs/readfilelcontext.go", Suffix: "/ranged", From: 0, To: -1, DurMs: p.StallMs}.Rule()}
			}
			done := make(chan struct{})
			node := procNode
			w.Sim.GoOn(node, "harness/proc", func() {
				defer close(done)
				w.RunClient(proc, false)
			})
			for i := 0; ; i++ {
				w.Sleep(50 * time.Millisecond)
				if proc.Exited || node.Dead() {
					break
				}
				if i > 20*60*10 {
					fail("no-termination", fmt.Sprintf("process %d did not finish", pi))
					break
				}
			}
			// state after the process ended (normally or killed)
			w.Sleep(100 * time.Millisecond)
			inspect("process-end")
			if proc.Exited && !node.Dead() && !p.Append && !p.NonCumul && !diskFull {
				content, err := os.ReadFile(outPath)
				if err != nil || !completeResult(content, sc.rows(p.Lines)) {
					fail("final-result-missing", fmt.Sprintf("process %d finished normally but the outfile does not hold its complete result: %q", pi, trunc(string(content), 120)))
				}
			}
			if p.Append {
				// after a run that was not killed the file must start with exactly one complete header
				content, err := os.ReadFile(outPath)
				if err == nil && len(content) > 0 && proc.Exited && !node.Dead() && !diskFull {
					first := strings.SplitN(string(content), "\n", 2)[0]
					if first != c15Header {
						fail("append-header-torn", fmt.Sprintf("process %d (append) finished normally; the first line of the outfile is %q, not the header", pi, trunc(first, 60)))
					}
				}
			}
			cur = -1
			w.Sim.Kill(node) // the process is gone either way
		}
	})
	res.Probes = addProbe(res.Probes, "crash-points-inspected", pointsInspected)
	if kills > 0 {
		res.Probes = addProbe(res.Probes, "process-kills", kills)
	}
	res.Info["points"] = pointsInspected
	res.NonTrivial = pointsInspected > 3
	if res.Panic != "" {
		res.Class, res.Message = "panic", res.Panic
		return res
	}
	if violation != "" {
		res.Class, res.Message = violation, vmsg
		res.Aborted = ""
		return res
	}
	if res.Aborted == "timecap" {
		res.Class, res.Message = "no-termination", "history did not finish within the simulated time bound"
	}
	return res
}

func c15Shape(s Scenario) string {
	sc := s.(*C15Scenario)
	var ps []string
	for _, p := range sc.Procs {
		ps = append(ps, fmt.Sprintf("a%v/n%v/k%d/l%d/s%d/d%d", p.Append, p.NonCumul, p.KillAt, p.Lines, p.StallMs, p.DiskFullAt))
	}
	sort.Strings(nil)
	return fmt.Sprintf("pre%v/link%v/g%d/%s", sc.PreExisting, sc.Symlink, sc.Groups, strings.Join(ps, ";"))
}

func c15Sample(s Scenario) any {
	sc := s.(*C15Scenario)
	return map[string]any{"pre_existing_result": sc.PreExisting, "groups": sc.Groups, "processes": sc.Procs, "sched": sc.Sched}
}

func c15Shrink(s Scenario) []Scenario {
	sc := s.(*C15Scenario)
	var out []Scenario
	cl := func() *C15Scenario {
		n := *sc
		n.Procs = append([]C15Proc(nil), sc.Procs...)
		return &n
	}
	for i := range sc.Procs {
		if len(sc.Procs) > 1 {
			n := cl()
			n.Procs = append(n.Procs[:i], n.Procs[i+1:]...)
			out = append(out, n)
		}
		if sc.Procs[i].Lines > 3 {
			n := cl()
			n.Procs[i].Lines = 3
			out = append(out, n)
		}
		if sc.Procs[i].StallMs > 0 {
			n := cl()
			n.Procs[i].StallMs = 0
			out = append(out, n)
		}
		if sc.Procs[i].DiskFullAt > 0 {
			n := cl()
			n.Procs[i].DiskFullAt = 0
			out = append(out, n)
			if sc.Procs[i].DiskFullAt > 1 {
				n2 := cl()
				n2.Procs[i].DiskFullAt = sc.Procs[i].DiskFullAt - 1
				out = append(out, n2)
			}
		}
		if sc.Procs[i].KillAt > 0 {
			n := cl()
			n.Procs[i].KillAt = sc.Procs[i].KillAt / 2
			out = append(out, n)
			n2 := cl()
			n2.Procs[i].KillAt = sc.Procs[i].KillAt - 1
			out = append(out, n2)
		}
	}
	if sc.PreExisting {
		n := cl()
		n.PreExisting = false
		out = append(out, n)
	}
	if sc.Groups > 1 {
		n := cl()
		n.Groups = 1
		out = append(out, n)
	}
	n := cl()
	n.Sched = SchedProfile{Mode: "fifo"}
	out = append(out, n)
	return out
}

func init() {
	Register(&Prop{
		ID:    "C15",
		Level: "fault_enumeration",
		Rule: "seeded histories of 1-4 consecutive serverless dmap client processes writing to the same outfile (append / non-append mixed, cumulative / non-cumulative, " +
			"optionally a pre-existing complete result, interval 1 s with reader stalls so that interim writes precede the final one). Crash points = every yield in front of a " +
			"file-system operation in mapr/groupsetresult.go (open tmp, each WriteString, close, rename, remove, query-file write and rename): ALL of them are inspected in " +
			"every run (the directory content at the yield is the post-kill state), and per process one point may really kill the process before the next one starts on the " +
			"leftovers; in 15 % of the processes the disk fills up at a chosen write (that write and all later ones to the outfile, its tmp and query file fail with ENOSPC, nothing written; dmap then ends with a fatal error); a killed process has no further file-system effects although its deferred functions run; non-trivial = more than 3 crash points inspected; distinct = (history shape, schedule hash). Evidence key probes.crash-points-inspected counts the points.",
		Real: []string{"internal/clients (MaprClient, periodic reporter)", "internal/mapr (GroupSet.WriteResult, writeQueryFile, getOutfileFD, resultWriteUnformatted)",
			"internal/server/handlers + internal/mapr/server (serverless aggregation)", "real files on tmpfs"},
		Stub: []string{"cmd/dmap main replica", "process kill = every goroutine of the process exits at its next yield point, completed system calls persist (SIGKILL model; no torn writes, no power loss)",
			"the scheduler's 'outfile exists => job done' rule is not exercised (see DESIGN.md)"},
		Assumptions: []string{"non-cumulative runs are only checked for well-formedness of the file at the path (each interval's result is a complete result of that interval)"},
		New:         func() Scenario { return &C15Scenario{} },
		Gen:         c15Gen,
		Run:         c15Run,
		Shrink:      c15Shrink,
		Shape:       c15Shape,
		Sample:      c15Sample,
		Triggers:    map[string]func(Scenario) (Scenario, bool){},
	})
}
