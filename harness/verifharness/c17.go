package verifharness

import (
	"bytes"
	"fmt"
	"net"
	"os"
	"path/filepath"
	"regexp"
	"strings"
	"testing"
	"time"

	"github.com/mimecast/dtail/internal/config"
	"github.com/mimecast/dtail/internal/verifsim"
	"github.com/mimecast/dtail/internal/verifsimnet"

	gossh "golang.org/x/crypto/ssh"
	"golang.org/x/crypto/ssh/knownhosts"
)

// C17 — the client talks only to servers whose host key is trusted (DESIGN.md
// §5 C17). Servers are harness SSH servers with individual host keys that
// record whether a session reached them.

type C17Entry struct {
	Kind   string `json:"kind"`             // host | ip | both | hashed | multi | unrelated | comment | blank | marker | longmulti
	Server int    `json:"server,omitempty"` // contacted server the entry is about
	Wrong  bool   `json:"wrong,omitempty"`  // entry carries a key that is not the server's
	Text   string `json:"text,omitempty"`   // for comment/unrelated
}

type C17Run struct {
	// Tail: a dtail (follow) client, which reconnects 2 s after a connection ended
	// until the user interrupts it (CancelAtMs is then always set)
	Tail     bool     `json:"tail,omitempty"`
	TrustAll bool     `json:"trust_all"`
	Answers  []string `json:"answers"` // lines typed by the user, in order
	// CancelAtMs >= 0: the user interrupts the client (Ctrl-C) this long after it
	// started, possibly while unknown hosts are collected for the next prompt
	CancelAtMs int `json:"cancel_at_ms"`
}

type C17Scenario struct {
	ScenarioBase
	Servers int        `json:"servers"`
	Known   []C17Entry `json:"known"`
	FinalNL bool       `json:"final_nl"`
	Runs    []C17Run   `json:"runs"`
	// Rekey: servers that present ANOTHER host key from their second connection
	// on (re-installed machine, or somebody in the middle of the re-dial); only
	// with a single run, and their original key is in known_hosts
	Rekey []int `json:"rekey,omitempty"`
	// StdoutLogger: the client logs to the terminal. Not generated: the stdout
	// logger's Pause() returns only when the next message is logged, and with
	// nothing to log the prompt never appears (real dtail behaviour, DESIGN §7);
	// ThinkMs: the time the user takes for each answer
	StdoutLogger bool `json:"stdout_logger,omitempty"`
	// RivalEdit (with ThinkMs >= 700): while the first prompt of a run is open,
	// another program (a second dcat, ssh) appends an entry of its own to
	// known_hosts; it must still be there after this client recorded its hosts
	RivalEdit bool                `json:"rival_edit,omitempty"`
	ThinkMs   int                 `json:"think_ms,omitempty"`
	Net       verifsimnet.Profile `json:"net"`
}

func c17Gen(r *Rand, tier string, i int) Scenario {
	sc := &C17Scenario{}
	sc.Sched = GenSched(r)
	sc.Servers = PickOf(r, 1, 2, 3, 4, 6)
	if tier == "thorough" && r.Bool(0.05) {
		sc.Servers = 60
	}
	ne := r.Intn(10)
	for k := 0; k < ne; k++ {
		e := C17Entry{Server: r.Intn(sc.Servers), Wrong: r.Bool(0.25)}
		switch r.Intn(12) {
		case 0, 1:
			e.Kind = "host"
		case 2:
			e.Kind = "ip"
		case 3, 4:
			e.Kind = "both"
		case 5:
			e.Kind = "hashed"
		case 6:
			e.Kind = "multi"
		case 7:
			e.Kind, e.Text = "comment", PickOf(r, "# a comment", "#", "# [hk1]:2222 ssh-ed25519 AAAA")
		case 8:
			e.Kind, e.Text = "blank", ""
		case 9:
			e.Kind = "marker"
		case 10:
			e.Kind = "unrelated"
		default:
			e.Kind = "unrelated"
			if r.Bool(0.15) {
				e.Kind = "longmulti"
			}
		}
		sc.Known = append(sc.Known, e)
	}
	sc.FinalNL = r.Bool(0.8)
	if r.Bool(0.3) {
		sc.ThinkMs = PickOf(r, 100, 700, 1900, 2100, 5000)
		sc.RivalEdit = sc.ThinkMs >= 700 && r.Bool(0.5)
	}
	nr := PickOf(r, 1, 1, 2, 3)
	for k := 0; k < nr; k++ {
		run := C17Run{TrustAll: r.Bool(0.2), CancelAtMs: -1}
		if r.Bool(0.15) {
			run.CancelAtMs = PickOf(r, 0, 5, 50, 500, 1500, 1990, 2010, 2600, 4500)
		}
		na := r.Range(1, 3)
		for a := 0; a < na; a++ {
			run.Answers = append(run.Answers, PickOf(r, "y", "yes", "n", "no", "a", "all", "d", "details", "", "maybe", "Y", "yes please"))
		}
		sc.Runs = append(sc.Runs, run)
	}
	if r.Bool(0.12) {
		// reconnects of a follow client to servers that change their host key
		sc.Runs = []C17Run{{Tail: true, TrustAll: r.Bool(0.15), CancelAtMs: PickOf(r, 7000, 9000, 12000)}}
		na := r.Range(0, 3)
		for a := 0; a < na; a++ {
			sc.Runs[0].Answers = append(sc.Runs[0].Answers, PickOf(r, "y", "n", "n", "a", "d", "maybe"))
		}
		for i := 0; i < sc.Servers; i++ {
			if r.Bool(0.6) {
				sc.Rekey = append(sc.Rekey, i)
				// its original key is known (a correct entry by name and by address)
				sc.Known = append(sc.Known, C17Entry{Kind: "both", Server: i})
			}
		}
		// drop generated entries that carry a wrong key for a re-keying server:
		// the first connection must be the trusted one
		var kept []C17Entry
		for _, e := range sc.Known {
			bad := false
			for _, i := range sc.Rekey {
				if e.Server == i && e.Wrong && e.Kind != "unrelated" && e.Kind != "comment" && e.Kind != "blank" && e.Kind != "marker" && e.Kind != "longmulti" {
					bad = true
				}
			}
			if !bad {
				kept = append(kept, e)
			}
		}
		sc.Known = kept
	}
	sc.Net = verifsimnet.Profile{LatencyMs: PickOf(r, 0, 1, 5)}
	if sc.Servers > 1 && r.Bool(0.3) {
		// some servers are far away: their host keys arrive after the first batch
		// of unknown hosts was prompted (batches are collected for 2 s), so one
		// run prompts and records twice
		sc.Net.ConnLatency = map[string]int{}
		for i := 0; i < sc.Servers; i++ {
			if r.Bool(0.4) {
				sc.Net.ConnLatency[c17Host(i)] = PickOf(r, 700, 1100, 1500, 2600)
			}
		}
	}
	return sc
}

func c17Host(i int) string { return fmt.Sprintf("hk%d", i+1) }
func c17IP(i int) net.IP   { return net.IPv4(10, 0, 3, byte(i+1)) }

// server keys: pool keys 10.. (distinct from user keys)
func c17Signer(i int) gossh.Signer { return Key(10 + i).Signer }

func (sc *C17Scenario) knownHosts() []byte {
	var lines []string
	wrongKey := Key(9).Signer.PublicKey()
	for _, e := range sc.Known {
		key := c17Signer(e.Server).PublicKey()
		if e.Wrong {
			key = wrongKey
		}
		h := fmt.Sprintf("%s:%d", c17Host(e.Server), config.DefaultSSHPort)
		ip := fmt.Sprintf("%s:%d", c17IP(e.Server), config.DefaultSSHPort)
		switch e.Kind {
		case "host":
			lines = append(lines, knownhosts.Line([]string{h}, key))
		case "ip":
			lines = append(lines, knownhosts.Line([]string{ip}, key))
		case "both":
			lines = append(lines, knownhosts.Line([]string{h}, key), knownhosts.Line([]string{ip}, key))
		case "hashed":
			lines = append(lines, knownhosts.Line([]string{knownhosts.HashHostname(knownhosts.Normalize(h))}, key))
		case "multi":
			lines = append(lines, knownhosts.Line([]string{h, ip, "other.example.org"}, key))
		case "marker":
			lines = append(lines, "@cert-authority *.example.org "+strings.TrimSpace(string(gossh.MarshalAuthorizedKey(wrongKey))))
		case "unrelated":
			lines = append(lines, knownhosts.Line([]string{fmt.Sprintf("unrelated%d.example.org", e.Server)}, wrongKey))
		case "longmulti":
			var hs []string
			for k := 0; k < 4000; k++ {
				hs = append(hs, fmt.Sprintf("node%04d.cluster.example.org", k))
			}
			lines = append(lines, knownhosts.Line(hs, wrongKey))
		default:
			lines = append(lines, e.Text)
		}
	}
	out := strings.Join(lines, "\n")
	if sc.FinalNL && len(lines) > 0 {
		out += "\n"
	}
	return []byte(out)
}

type c17Server struct {
	accepted       int // connections accepted so far
	rekey          bool
	establishedNew int // sessions that reached the shell under the server's second key
	established    int // sessions that reached the shell
	commands       int // sessions in which command bytes arrived
}

func (w *World) runKeyServer(i int, st *c17Server) {
	l, err := verifsimnet.Listen("tcp", fmt.Sprintf("0.0.0.0:%d", config.DefaultSSHPort))
	must(err)
	cfg := &gossh.ServerConfig{PublicKeyCallback: func(c gossh.ConnMetadata, k gossh.PublicKey) (*gossh.Permissions, error) { return nil, nil }}
	cfg.AddHostKey(c17Signer(i))
	cfg2 := &gossh.ServerConfig{PublicKeyCallback: cfg.PublicKeyCallback}
	cfg2.AddHostKey(Key(100 + i).Signer) // the key after the re-key
	node := verifsim.CurrentNode()
	for {
		verifsim.Yield("harness/keyaccept")
		conn, err := l.Accept()
		if err != nil {
			return
		}
		st.accepted++
		useCfg, newKey := cfg, false
		if st.rekey && st.accepted > 1 {
			useCfg, newKey = cfg2, true
		}
		w.Sim.GoOn(node, "harness/keyconn", func() {
			sc, chans, reqs, err := gossh.NewServerConn(conn, useCfg)
			if err != nil {
				return
			}
			go gossh.DiscardRequests(reqs)
			for nc := range chans {
				ch, rq, err := nc.Accept()
				if err != nil {
					continue
				}
				w.Sim.GoOn(node, "harness/keysession", func() {
					for req := range rq {
						if req.Type != "shell" {
							req.Reply(false, nil)
							continue
						}
						req.Reply(true, nil)
						st.established++
						if newKey {
							st.establishedNew++
						}
						w.Sim.GoOn(node, "harness/keyscript", func() {
							buf := make([]byte, 4096)
							n, _ := ch.Read(buf)
							if n > 0 {
								st.commands++
							}
							ch.Write(append([]byte(".syn close connection"), 0xAC))
							w.Sleep(100 * time.Millisecond)
							ch.Close()
							sc.Close()
						})
					}
				})
			}
		})
	}
}

var c17PromptRe = regexp.MustCompile(`Encountered (\d+) unknown hosts: '([^']*)'`)

func c17Run(t *testing.T, s Scenario, src verifsim.DecisionSource, keep bool) *RunResult {
	sc := s.(*C17Scenario)
	res := &RunResult{Info: map[string]any{}}
	np := sc.Net
	opts := RunOpts{Src: src, KeepLabels: keep, MaxFake: 30 * time.Minute, Net: &np}
	if sc.ThinkMs > 0 {
		opts.Stalls = stallRules([]StallSpec{{Name: "user.thinks", Site: "user/answers", Suffix: "", From: 0, To: -1, DurMs: sc.ThinkMs}})
	}
	violation, vmsg := "", ""
	fail := func(cls, msg string) {
		if violation == "" {
			violation, vmsg = cls, msg
		}
	}
	prompts := 0
	cuts := 0
	res.Outcome = RunSim(t, opts, func(w *World) {
		w.Net.AddHost("clienthost", net.IPv4(10, 0, 1, 1))
		states := make([]*c17Server, sc.Servers)
		var hosts []string
		for i := 0; i < sc.Servers; i++ {
			i := i
			states[i] = &c17Server{}
			for _, k := range sc.Rekey {
				if k == i {
					states[i].rekey = true
				}
			}
			h := c17Host(i)
			hosts = append(hosts, h)
			w.Net.AddHost(h, c17IP(i))
			node := w.Sim.NewNode("keysrv:"+h, "server", h)
			w.Sim.GoOn(node, "harness/keysrv", func() { w.runKeyServer(i, states[i]) })
		}
		khPath := filepath.Join(w.Dir, "home", ".ssh", "known_hosts")
		must(os.WriteFile(khPath, sc.knownHosts(), 0600))
		keyPath := filepath.Join(w.Dir, "home", ".ssh", "id_sim")
		must(os.WriteFile(keyPath, Key(0).PrivPEM, 0600))
		for tries := 0; tries < 2000; tries++ {
			ready := true
			for _, h := range hosts {
				if !w.Net.HasListener(fmt.Sprintf("%s:%d", h, config.DefaultSSHPort)) {
					ready = false
				}
			}
			if ready {
				break
			}
			w.Sleep(time.Millisecond)
		}
		oldStdin := os.Stdin
		defer func() { os.Stdin = oldStdin }()
		for ri, run := range sc.Runs {
			if violation != "" {
				break
			}
			before, _ := os.ReadFile(khPath)
			// which servers does the known_hosts file vouch for right now? (x/crypto knownhosts = trusted base)
			knownOK := make([]bool, sc.Servers)
			if cb, err := knownhosts.New(khPath); err == nil {
				for i := 0; i < sc.Servers; i++ {
					addr := &net.TCPAddr{IP: c17IP(i), Port: config.DefaultSSHPort}
					knownOK[i] = cb(fmt.Sprintf("%s:%d", c17Host(i), config.DefaultSSHPort), addr, c17Signer(i).PublicKey()) == nil
				}
			}
			// the scripted user: one answer per 4096-byte line, so that the prompt's
			// fresh 4096-byte buffered reader consumes exactly one answer per read
			var in bytes.Buffer
			answers := append(append([]string(nil), run.Answers...), "n", "n", "n", "n", "n", "n", "n", "n")
			for _, a := range answers {
				line := a + strings.Repeat(" ", 4095-len(a)) + "\n"
				in.WriteString(line)
			}
			inPath := filepath.Join(w.Dir, fmt.Sprintf("stdin-%d", ri))
			must(os.WriteFile(inPath, in.Bytes(), 0600))
			f, err := os.Open(inPath)
			must(err)
			os.Stdin = f
			startOut := w.StdoutSize()
			if os.Getenv("VERIF_DUMP_STDOUT") != "" {
				w.Sim.GoOn(w.Sim.NewNode(fmt.Sprintf("dbg%d", ri), "client", "clienthost"), "harness/dbg", func() {
					w.Sleep(20 * time.Second)
					fmt.Fprintf(os.Stderr, "STDOUT@20s run %d:\n%s\n", ri, trunc(string(w.Stdout(-1)), 3000))
				})
			}
			base := make([]c17Server, sc.Servers)
			for i := range states {
				base[i] = *states[i]
			}
			a := DefaultArgs()
			a.Logger = "none"
			if sc.StdoutLogger {
				a.Logger = "stdout"
			}
			a.NoColor = true
			a.What = "/var/log/x.log"
			a.ServersStr = strings.Join(hosts, ",")
			a.SSHPrivateKeyFilePath = keyPath
			a.TrustAllHosts = run.TrustAll
			proc := &ClientProc{Kind: "cat", Args: a}
			if run.Tail {
				proc.Kind = "tail"
			}
			// every run is its own process: when main returns, all its goroutines die
			pnode := w.Sim.NewNode(fmt.Sprintf("proc%d", ri), "client", "clienthost")
			pdone := make(chan struct{})
			w.Sim.GoOn(pnode, "harness/proc", func() {
				defer close(pdone)
				w.RunClient(proc, false)
			})
			rivalLine := ""
			if sc.RivalEdit && sc.ThinkMs >= 700 {
				rnode := w.Sim.NewNode(fmt.Sprintf("rival%d", ri), "client", "clienthost")
				w.Sim.GoOn(rnode, "harness/rival-edit", func() {
					seen := false
					for k := 0; k < 3000 && !seen; k++ {
						select {
						case <-pdone:
							return
						default:
						}
						if c17PromptRe.Match(w.Stdout(-1)[startOut:]) {
							seen = true
							break
						}
						w.Sleep(20 * time.Millisecond)
					}
					if !seen {
						return
					}
					w.Sleep(time.Duration(sc.ThinkMs/3) * time.Millisecond)
					select {
					case <-pdone:
						return
					default:
					}
					cur, err := os.ReadFile(khPath)
					if err != nil {
						return
					}
					line := knownhosts.Line([]string{fmt.Sprintf("rival%d.example.org:2222", ri)}, Key(60+ri).Signer.PublicKey())
					add := line + "\n"
					if len(cur) > 0 && cur[len(cur)-1] != '\n' {
						add = "\n" + add
					}
					f, err := os.OpenFile(khPath, os.O_APPEND|os.O_WRONLY, 0600)
					if err != nil {
						return
					}
					f.WriteString(add)
					f.Close()
					rivalLine = line
					w.Sim.Fault("known_hosts.edited-by-another-program")
				})
			}
			if run.CancelAtMs >= 0 {
				w.Sim.GoOn(pnode, "harness/ctrl-c", func() {
					w.Sleep(time.Duration(run.CancelAtMs) * time.Millisecond)
					if proc.Cancel != nil && !proc.Exited {
						w.Sim.Fault("client.interrupted")
						proc.Cancel()
					}
				})
			}
			verifsim.Yield("harness/waitproc")
			<-pdone
			w.Sim.Kill(pnode)
			w.Sleep(200 * time.Millisecond)
			f.Close()
			if proc.Panic != "" {
				fail("client-panic", trunc(proc.Panic, 600))
				break
			}
			// which batches were prompted, and what did the user answer?
			out := w.Stdout(-1)[startOut:]
			approved := map[string]bool{}
			refused := map[string]bool{}
			ai := 0
			allSaid := false
			// batches in order of first appearance (a prompt is re-printed after a
			// non-terminal answer such as "details" or garbage)
			// Every printed prompt consumes exactly one line of input: a terminal
			// answer (yes/all/no) decides the batch, anything else ("details",
			// garbage, empty) makes the prompt ask again. A follow client that
			// reconnects may prompt for the same host several times.
			var batches [][]string
			for _, m := range c17PromptRe.FindAllSubmatch(out, -1) {
				hostsOfPrompt := strings.Split(string(m[2]), ",")
				verdict := ""
				if ai < len(answers) {
					switch strings.TrimSpace(answers[ai]) {
					case "y", "yes":
						verdict = "yes"
					case "a", "all":
						verdict = "yes"
						allSaid = true
					case "n", "no":
						verdict = "no"
					}
				}
				ai++
				if verdict == "" {
					continue
				}
				batches = append(batches, hostsOfPrompt)
				for _, h := range hostsOfPrompt {
					if verdict == "yes" {
						approved[h] = true
						delete(refused, h)
					} else {
						refused[h] = true
					}
				}
			}
			prompts += len(batches)
			after, _ := os.ReadFile(khPath)
			var newlyTrusted []int
			for i := 0; i < sc.Servers; i++ {
				got := states[i].established - base[i].established
				hostAddr := fmt.Sprintf("%s:%d", c17Host(i), config.DefaultSSHPort)
				// after the answer "all" later batches are trusted without a prompt
				trustedByAll := allSaid && (!refused[hostAddr] || run.Tail) // a follow client retries refused hosts after "all"
				trusted := knownOK[i] || run.TrustAll || approved[hostAddr] || trustedByAll
				if gotNew := states[i].establishedNew - base[i].establishedNew; gotNew > 0 && !(run.TrustAll || approved[hostAddr] || allSaid) {
					fail("untrusted-host-contacted", fmt.Sprintf("run %d: %s changed its host key between two connections of this run; a session was established under the new key although the user did not approve it (answers %q)",
						ri, hostAddr, run.Answers))
				}
				if got > 0 && !trusted {
					fail("untrusted-host-contacted", fmt.Sprintf("run %d: a session was established with %s although its key is not vouched for by known_hosts, trust-all is off and the user did not approve it (answers %q)",
						ri, hostAddr, run.Answers))
				}
				if !knownOK[i] && (run.TrustAll || approved[hostAddr] || trustedByAll) {
					newlyTrusted = append(newlyTrusted, i)
				}
			}
			// known_hosts afterwards
			// (A left-over known_hosts.tmp means the client exited while the recorder
			// goroutine was still rewriting the file: a schedule-dependent race
			// between process exit and the rewrite, outside this property's
			// quantifier (inputs, histories). It is counted as a probe, not judged.)
			rewriteCut := false
			if _, err := os.Stat(khPath + ".tmp"); err == nil {
				rewriteCut = true
				os.Remove(khPath + ".tmp")
			}
			replaced := map[string]bool{}
			for _, i := range sc.Rekey {
				// an approved new key replaces the host's old entries
				hostAddr := fmt.Sprintf("%s:%d", c17Host(i), config.DefaultSSHPort)
				if run.TrustAll || approved[hostAddr] || allSaid {
					replaced[knownhosts.Normalize(hostAddr)] = true
					replaced[knownhosts.Normalize(fmt.Sprintf("%s:%d", c17IP(i), config.DefaultSSHPort))] = true
				}
			}
			for _, i := range newlyTrusted {
				replaced[knownhosts.Normalize(fmt.Sprintf("%s:%d", c17Host(i), config.DefaultSSHPort))] = true
				replaced[knownhosts.Normalize(fmt.Sprintf("%s:%d", c17IP(i), config.DefaultSSHPort))] = true
			}
			afterLines := map[string]int{}
			for _, l := range strings.Split(string(after), "\n") {
				afterLines[l]++
			}
			rekeyed := false
			for _, i := range sc.Rekey {
				if states[i].accepted-base[i].accepted > 1 {
					rekeyed = true
				}
			}
			if rivalLine != "" && afterLines[rivalLine] == 0 {
				fail("known-hosts-entry-lost", fmt.Sprintf("run %d: the entry %q, added to known_hosts by another program while the prompt was open (%d ms before the answer), is gone after this client recorded its hosts",
					ri, trunc(rivalLine, 60), sc.ThinkMs-sc.ThinkMs/3))
			}
			if len(newlyTrusted) == 0 && len(batches) == 0 && !bytes.Equal(before, after) && !(rekeyed && run.TrustAll) && rivalLine == "" {
				fail("known-hosts-changed", fmt.Sprintf("run %d: no host was newly trusted but known_hosts changed (%d -> %d bytes)", ri, len(before), len(after)))
			}
			for _, l := range strings.Split(string(before), "\n") {
				if l == "" {
					continue
				}
				first := strings.SplitN(l, " ", 2)[0]
				if replaced[first] {
					continue
				}
				if afterLines[l] == 0 {
					fail("known-hosts-entry-lost", fmt.Sprintf("run %d: the unrelated known_hosts line %q is gone after recording newly trusted hosts (file %d -> %d bytes)",
						ri, trunc(l, 70), len(before), len(after)))
					break
				}
			}
			for _, i := range newlyTrusted {
				if rewriteCut || bytes.Equal(before, after) {
					break // the rewrite never completed (see above)
				}
				if states[i].established-base[i].established == 0 {
					continue // never connected (e.g. refused before): nothing must be recorded
				}
				hl := knownhosts.Line([]string{fmt.Sprintf("%s:%d", c17Host(i), config.DefaultSSHPort)}, c17Signer(i).PublicKey())
				if afterLines[hl] == 0 {
					fail("new-host-not-recorded", fmt.Sprintf("run %d: %s was newly trusted but its entry is missing from known_hosts", ri, c17Host(i)))
				}
			}
			if rewriteCut {
				cuts++
			}
			w.Sleep(3 * time.Second)
		}
	})
	res.NonTrivial = true
	res.Probes = addProbe(res.Probes, "prompts-answered", prompts)
	if cuts > 0 {
		res.Probes = addProbe(res.Probes, "exit-before-known-hosts-rewrite-finished", cuts)
	}
	if res.Panic != "" {
		res.Class, res.Message = "client-panic", trunc(res.Panic, 1200)
		return res
	}
	if violation != "" {
		res.Class, res.Message = violation, vmsg
		res.Aborted = ""
		return res
	}
	if res.Aborted == "timecap" {
		res.Class, res.Message = "no-termination", "client runs did not finish within the simulated time bound"
	}
	return res
}

func c17Shape(s Scenario) string {
	sc := s.(*C17Scenario)
	var ks, rs []string
	for _, e := range sc.Known {
		ks = append(ks, fmt.Sprintf("%s%d%v", e.Kind, e.Server, e.Wrong))
	}
	for _, r := range sc.Runs {
		rs = append(rs, fmt.Sprintf("%v:%s:c%d", r.TrustAll, strings.Join(r.Answers, "/"), r.CancelAtMs))
	}
	return fmt.Sprintf("s%d/rekey%v/%s/nl%v/%s/slow%v/out%v/think%d", sc.Servers, sc.Rekey, strings.Join(ks, ","), sc.FinalNL, strings.Join(rs, ";"), sc.Net.ConnLatency, sc.StdoutLogger, sc.ThinkMs)
}

func c17Sample(s Scenario) any {
	sc := s.(*C17Scenario)
	return map[string]any{"servers": sc.Servers, "known_hosts_entries": sc.Known, "final_newline": sc.FinalNL, "runs": sc.Runs}
}

func c17Shrink(s Scenario) []Scenario {
	sc := s.(*C17Scenario)
	var out []Scenario
	cl := func() *C17Scenario {
		n := *sc
		n.Known = append([]C17Entry(nil), sc.Known...)
		n.Runs = nil
		for _, r := range sc.Runs {
			r.Answers = append([]string(nil), r.Answers...)
			n.Runs = append(n.Runs, r)
		}
		return &n
	}
	for i := range sc.Known {
		n := cl()
		n.Known = append(n.Known[:i], n.Known[i+1:]...)
		out = append(out, n)
	}
	for i := range sc.Runs {
		if len(sc.Runs) > 1 {
			n := cl()
			n.Runs = append(n.Runs[:i], n.Runs[i+1:]...)
			out = append(out, n)
		}
	}
	if sc.Servers > 1 {
		n := cl()
		n.Servers--
		for i := range n.Known {
			if n.Known[i].Server >= n.Servers {
				n.Known[i].Server = 0
			}
		}
		out = append(out, n)
	}
	return out
}

func init() {
	Register(&Prop{
		ID:    "C17",
		Level: "exploration",
		Rule: "seeded generation of histories of 1-3 consecutive dcat runs against 1-6 (thorough: 60, to cross the 50-host batch threshold) SSH servers with individual host keys: initial " +
			"known_hosts with plain, IP, hashed and multi-host entries carrying right or wrong keys, @cert-authority markers, comments, blank lines, unrelated entries, a 4000-host " +
			"line longer than 64 KiB, with and without final newline; --trustAllHosts on/off; scripted user answers (y yes n no a all d details, garbage, empty). Oracle: a server " +
			"sees a session only if x/crypto's knownhosts vouched for it at the start of the run, trust-all was on, or the user approved its batch; afterwards every old line " +
			"not about a newly trusted address is still present verbatim, new hosts are recorded, no .tmp is left. distinct = (history, schedule hash); every run is non-trivial",
		Real: []string{"internal/ssh/client (KnownHostsCallback.Wrap, PromptAddHosts batching on the fake clock, trustHosts rewrite)", "internal/io/prompt", "internal/clients + connectors (dial path)",
			"x/crypto/ssh + knownhosts over simnet"},
		Stub: []string{"servers are harness SSH servers with their own host keys (they record sessions)", "the user is a script: os.Stdin is a regular file with one answer per 4096-byte line; an answer takes 0-5 s of simulated time",
			"client logger 'none': with the terminal logger the prompt appears only once some other message is logged (Pause() is handed over to the next log call), so a quiet client hangs before the question is shown - real behaviour, reproduced with the binaries, but no listed property speaks about it (DESIGN §7); the pause/resume protocol itself runs in C07"},
		Assumptions: []string{"x/crypto/ssh/knownhosts decides whether a key matches the file (trusted base)"},
		New:         func() Scenario { return &C17Scenario{} },
		Gen:         c17Gen,
		Run:         c17Run,
		Shrink:      c17Shrink,
		Shape:       c17Shape,
		Sample:      c17Sample,
		Triggers:    map[string]func(Scenario) (Scenario, bool){},
	})
}
