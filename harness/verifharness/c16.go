package verifharness

import (
	"bytes"
	"fmt"
	"net"
	"os"
	"path/filepath"
	"regexp"
	"sort"
	"strings"
	"testing"
	"time"

	"github.com/mimecast/dtail/internal/config"
	"github.com/mimecast/dtail/internal/verifsim"
	"github.com/mimecast/dtail/internal/verifsimnet"

	gossh "golang.org/x/crypto/ssh"
	"golang.org/x/crypto/ssh/knownhosts"
)

// C16 — no message content can crash the client; colouring never alters text
// (DESIGN.md §5 C16). The servers are scripted by the harness.

type C16Server struct {
	Messages [][]byte `json:"messages"` // each is sent followed by the message delimiter (unless RawTail)
	ChunkMax int      `json:"chunk_max"`
	PauseMs  int      `json:"pause_ms"`
	Syn      bool     `json:"syn"` // finish with the close handshake (else just close)
}

type C16Scenario struct {
	ScenarioBase
	Client  string              `json:"client"` // cat | grep | tail | map | health
	Servers []C16Server         `json:"servers"`
	Net     verifsimnet.Profile `json:"net"`
}

var c16Fields = []string{"EOF", "End", "Foo", "ERR", "FAT", "WAR", "W", "E", "F", "ERRO", "FATA", "", "h1", "100", " 99", "7", "x.log", "text", "WARN something", "ERROR|bad", "FATAL", "WARNING", "a|b", "é", "  WARN indented", "\tERROR after a tab", " FATAL", "   ", "x\tWARN", "\x1b[31mred\x1b[0m", "\x1b[", "%s%d", " ", "REMOTE", "100\n", "\t"}

// genC16Message generates one server message. An ESC byte that does not start
// a complete SGR sequence is replaced: "the coloured rendering with its escape
// sequences removed" is not well defined for content that ends in half an
// escape sequence (the brush's own sequence then completes it, and removing
// sequences from both renderings leaves different remainders) - a false alarm
// of the comparison, seen once in 2 801 runs with another seed (DESIGN §9.3).
func genC16Message(r *Rand) []byte {
	b := genC16MessageRaw(r)
	keep := map[int]bool{}
	for _, loc := range sgrRe.FindAllIndex(b, -1) {
		keep[loc[0]] = true
	}
	for i := range b {
		if b[i] == 0x1b && !keep[i] {
			b[i] = '?'
		}
	}
	return b
}

func genC16MessageRaw(r *Rand) []byte {
	join := func(prefix string, n int) []byte {
		parts := []string{prefix}
		for i := 0; i < n; i++ {
			parts = append(parts, c16Fields[r.Intn(len(c16Fields))])
		}
		return []byte(strings.Join(parts, "|"))
	}
	switch r.Intn(16) {
	case 14, 15:
		if r.Bool(0.5) {
			return join("REMOTE|srv", 1+r.Intn(6)) // padded / odd percentage and count fields
		}
		return []byte(fmt.Sprintf("REMOTE|srv|%3d|%d|f.log|line\n", r.Intn(101), r.Intn(50)))
	case 0, 1:
		return join("REMOTE", r.Intn(10))
	case 2:
		if r.Bool(0.3) {
			// a well-formed record of an empty, blank or separator-only line
			return []byte(fmt.Sprintf("REMOTE|srv|100|%d|f.log|%s\n", r.Intn(100), PickOf(r, "", "", " ", "\t", "|", "||", "\r", "EOF", "End", "Foo", "E", "F", "W", "ERR", "FATA", "WAR")))
		}
		return []byte(fmt.Sprintf("REMOTE|srv|100|%d|f.log|line %d of the file\n", r.Intn(100), r.Intn(100)))
	case 3:
		return join(PickOf(r, "SERVER", "CLIENT"), r.Intn(5))
	case 4:
		return join(PickOf(r, "REMOTEX", "SERVERS", "CLIENT2", "REMOTE\n", "remote", "REMOT"), r.Intn(4))
	case 5:
		return []byte{} // empty message
	case 6:
		return []byte(PickOf(r, ".", ".hidden", ".syn", ".syn close", ".ack close connection", "..", ".\n"))
	case 7: // well-formed aggregate
		key := fmt.Sprintf("G%d", r.Intn(3))
		if r.Bool(0.4) {
			// group keys and string values wider/narrower in bytes than in runes
			key = PickOf(r, "müller", "žižek", "日本", "a-very-long-group-key-wider-than-the-header", "-5", "é")
		}
		return []byte(fmt.Sprintf("AGGREGATE|srv|%s∥%d∥count(x)≔%d∥sum(x)≔%d.5∥last(y)≔%s∥", key, 1+r.Intn(9), r.Intn(50), r.Intn(50), PickOf(r, "v", "v", "größer", "-1.5", "日本語のログ")))
	case 8: // malformed aggregates
		return []byte(PickOf(r, "AGGREGATE", "AGGREGATE|", "AGGREGATE|srv", "AGGREGATE|srv|", "AGGREGATE|srv|k", "AGGREGATE|srv|k∥", "AGGREGATE|srv|k∥x∥count(x)≔1∥",
			"AGGREGATE|srv|k∥3∥", "AGGREGATE|srv|k∥3∥count(x)∥", "AGGREGATE|srv|k∥3∥≔∥", "AGGREGATE|srv|k∥3∥count(x)≔notanumber∥", "AGGREGATE|srv|k∥-1∥count(x)≔1∥",
			"AGGREGATE|srv|∥∥∥∥", "AGGREGATE|srv|k∥99999999999999999999∥count(x)≔1∥", "AGGREGATE|srv|k∥3∥count(x)≔1e999∥sum(x)≔NaN∥", "A", "AB", "A|"))
	case 13: // AGGREGATE payloads assembled structurally: any number of ∥-separated parts
		np := r.Intn(7)
		parts := []string{PickOf(r, "k", "", "G1,G2", "web01")}
		for i := 0; i < np; i++ {
			parts = append(parts, PickOf(r, "3", "", "x", "-1", "count(x)≔2", "sum(x)≔1.5", "last(y)≔v", "≔", "count(x)≔", "≔7", "count(x)≔2≔3", "0", "99999999999999999999"))
		}
		p := strings.Join(parts, "∥")
		if r.Bool(0.5) {
			p += "∥"
		}
		return []byte(PickOf(r, "AGGREGATE|srv|", "AGGREGATE|srv|", "AGGREGATE||", "AGGREGATE|") + p)
	case 9: // arbitrary bytes
		n := r.Range(1, 60)
		b := make([]byte, n)
		for i := range b {
			b[i] = byte(r.Intn(256))
		}
		return b
	case 10:
		return []byte(PickOf(r, "OK", "srv|OK", "CRITICAL", "a|b|OK", "OK\n", ""))
	case 11:
		return []byte(strings.Repeat("x", PickOf(r, 100, 5000, 5000, 40000)))
	case 12:
		return join("REMOTE|srv|100|1|id", r.Intn(3)) // exactly/over six fields
	default:
		return []byte(PickOf(r, "\n", "\n\n", "|", "||||||", "REMOTE||||||", "SERVER||", "CLIENT||WARN", "REMOTE|h|100|1|id|ERROR boom", "REMOTE|h|99|1|id|FATAL\n"))
	}
}

func c16Gen(r *Rand, tier string, i int) Scenario {
	sc := &C16Scenario{}
	sc.Sched = GenSched(r)
	// the oracle compares a coloured with an uncoloured run of the same
	// scenario and schedule; the two execute different statements, so
	// statement-level preemption would give them different interleavings
	// (records of several servers in a different order: a false alarm)
	sc.Sched.PreemptM = 0
	sc.Client = PickOf(r, "cat", "cat", "grep", "tail", "map", "map", "health")
	ns := PickOf(r, 1, 1, 1, 2, 3)
	for k := 0; k < ns; k++ {
		sv := C16Server{ChunkMax: PickOf(r, 0, 0, 1, 3, 17), PauseMs: PickOf(r, 0, 0, 1, 20), Syn: r.Bool(0.7)}
		nm := r.Range(1, 12)
		for m := 0; m < nm; m++ {
			sv.Messages = append(sv.Messages, genC16Message(r))
		}
		sc.Servers = append(sc.Servers, sv)
	}
	sc.Net = verifsimnet.Profile{LatencyMs: PickOf(r, 0, 1), ChunkMax: PickOf(r, 0, 0, 5, 1400)}
	// bound the number of scheduling steps: tiny chunks only with short messages
	for k := range sc.Servers {
		if (sc.Servers[k].ChunkMax > 0 && sc.Servers[k].ChunkMax < 64) || (sc.Net.ChunkMax > 0 && sc.Net.ChunkMax < 64) {
			for m := range sc.Servers[k].Messages {
				if len(sc.Servers[k].Messages[m]) > 300 {
					sc.Servers[k].Messages[m] = sc.Servers[k].Messages[m][:300]
				}
			}
		}
	}
	return sc
}

var sgrRe = regexp.MustCompile("\x1b\\[[0-9;]*m")

// envNumbers are the environment-dependent counters of the client's own
// statistics records (runtime.NumGoroutine etc.): the same text in both runs
// up to these numbers.
var envNumbers = regexp.MustCompile(`(goroutines|cgocalls|cpu)=[0-9]+`)

func stripSGR(b []byte) []byte {
	return envNumbers.ReplaceAll(sgrRe.ReplaceAll(b, nil), []byte("$1=N"))
}

// runEvilServer accepts connections on the current node's host name and
// plays the script on every shell session.
func (w *World) runEvilServer(sv C16Server, signer gossh.Signer) {
	l, err := verifsimnet.Listen("tcp", fmt.Sprintf("0.0.0.0:%d", config.DefaultSSHPort))
	must(err)
	cfg := &gossh.ServerConfig{
		PublicKeyCallback: func(c gossh.ConnMetadata, k gossh.PublicKey) (*gossh.Permissions, error) { return nil, nil },
		PasswordCallback:  func(c gossh.ConnMetadata, p []byte) (*gossh.Permissions, error) { return nil, nil },
	}
	cfg.AddHostKey(signer)
	node := verifsim.CurrentNode()
	for {
		verifsim.Yield("harness/evilaccept")
		conn, err := l.Accept()
		if err != nil {
			return
		}
		w.Sim.GoOn(node, "harness/evilconn", func() {
			sc, chans, reqs, err := gossh.NewServerConn(conn, cfg)
			if err != nil {
				return
			}
			go gossh.DiscardRequests(reqs)
			for nc := range chans {
				ch, rq, err := nc.Accept()
				if err != nil {
					continue
				}
				w.Sim.GoOn(node, "harness/evilsession", func() {
					for req := range rq {
						if req.Type == "shell" {
							req.Reply(true, nil)
							w.Sim.GoOn(node, "harness/evilscript", func() {
								// drain what the client sends
								w.Sim.GoOn(node, "harness/evildrain", func() {
									buf := make([]byte, 4096)
									for {
										if _, err := ch.Read(buf); err != nil {
											return
										}
									}
								})
								var stream bytes.Buffer
								for _, m := range sv.Messages {
									stream.Write(m)
									stream.WriteByte(0xAC)
								}
								if sv.Syn {
									stream.WriteString(".syn close connection")
									stream.WriteByte(0xAC)
								}
								data := stream.Bytes()
								for len(data) > 0 {
									n := len(data)
									if sv.ChunkMax > 0 && n > sv.ChunkMax {
										n = sv.ChunkMax
									}
									if _, err := ch.Write(data[:n]); err != nil {
										return
									}
									data = data[n:]
									if sv.PauseMs > 0 {
										w.Sleep(time.Duration(sv.PauseMs) * time.Millisecond)
									} else {
										verifsim.Yield("harness/evilwrite")
									}
								}
								w.Sleep(200 * time.Millisecond)
								ch.Close()
								sc.Close()
							})
						} else {
							req.Reply(false, nil)
						}
					}
				})
			}
		})
	}
}

func c16RunOnce(t *testing.T, sc *C16Scenario, src verifsim.DecisionSource, keep, colour bool) (Outcome, *ClientProc, []byte) {
	np := sc.Net
	opts := RunOpts{Src: src, KeepLabels: keep, MaxFake: 4 * time.Minute, Net: &np}
	var proc *ClientProc
	var stdout []byte
	out := RunSim(t, opts, func(w *World) {
		w.Net.AddHost("clienthost", net.IPv4(10, 0, 1, 1))
		signer, err := gossh.ParsePrivateKey(hostKey())
		must(err)
		var kh bytes.Buffer
		var hosts []string
		for i, sv := range sc.Servers {
			sv := sv
			h := fmt.Sprintf("evil%d", i+1)
			ip := net.IPv4(10, 0, 2, byte(i+1))
			hosts = append(hosts, h)
			w.Net.AddHost(h, ip)
			node := w.Sim.NewNode("evil:"+h, "server", h)
			w.Sim.GoOn(node, "harness/evil", func() { w.runEvilServer(sv, signer) })
			kh.WriteString(knownhosts.Line([]string{fmt.Sprintf("%s:%d", h, config.DefaultSSHPort)}, signer.PublicKey()) + "\n")
			kh.WriteString(knownhosts.Line([]string{fmt.Sprintf("%s:%d", ip, config.DefaultSSHPort)}, signer.PublicKey()) + "\n")
		}
		must(os.WriteFile(filepath.Join(w.Dir, "home", ".ssh", "known_hosts"), kh.Bytes(), 0600))
		keyPath := filepath.Join(w.Dir, "home", ".ssh", "id_sim")
		must(os.WriteFile(keyPath, Key(0).PrivPEM, 0600))
		for tries := 0; tries < 1000; tries++ {
			ready := true
			for _, h := range hosts {
				if !w.Net.HasListener(fmt.Sprintf("%s:%d", h, config.DefaultSSHPort)) {
					ready = false
				}
			}
			if ready {
				break
			}
			w.Sleep(time.Millisecond)
		}
		a := DefaultArgs()
		a.NoColor = !colour
		a.ServersStr = strings.Join(hosts, ",")
		a.SSHPrivateKeyFilePath = keyPath
		a.TrustAllHosts = true
		a.What = "/var/log/x.log"
		kind := sc.Client
		switch sc.Client {
		case "grep":
			a.RegexStr = "x"
		case "map":
			a.QueryStr = "select count(x),sum(x),last(y) group by g interval 1"
			a.Mode = 5
		case "health":
			a.Logger = "none"
		}
		proc = &ClientProc{Kind: kind, Args: a}
		done := make(chan struct{})
		w.Sim.GoOn(w.ClientNode, "harness/client", func() {
			defer close(done)
			w.RunClient(proc, false)
		})
		// tail clients (and retrying mapr tails) never end by themselves: Ctrl-C after the scripts are through
		verifsim.Yield("harness/waitclient")
		select {
		case <-done:
		case <-time.After(60 * time.Second):
			if proc.Cancel != nil {
				proc.Cancel()
			}
			verifsim.Yield("harness/waitclient2")
			select {
			case <-done:
			case <-time.After(30 * time.Second):
			}
		}
		stdout = w.Stdout(-1)
	})
	return out, proc, stdout
}

func sortedLines(b []byte) string {
	ls := strings.Split(string(b), "\n")
	sort.Strings(ls)
	return strings.Join(ls, "\n")
}

func c16Run(t *testing.T, s Scenario, src verifsim.DecisionSource, keep bool) *RunResult {
	sc := s.(*C16Scenario)
	res := &RunResult{Info: map[string]any{}}
	// first run: colours on, with the given decision source
	out1, proc1, col := c16RunOnce(t, sc, src, keep, true)
	res.Outcome = out1
	res.NonTrivial = true
	check := func(o Outcome, p *ClientProc, mode string) bool {
		if o.Panic != "" {
			res.Class, res.Message = "client-panic", fmt.Sprintf("(%s) a panic reached the top of a client goroutine: %s", mode, trunc(o.Panic, 1500))
			return false
		}
		if p != nil && p.Panic != "" {
			res.Class, res.Message = "client-panic", fmt.Sprintf("(%s) the client's main goroutine panicked: %s", mode, trunc(p.Panic, 800))
			return false
		}
		return true
	}
	if !check(out1, proc1, "colours on") {
		return res
	}
	if out1.Aborted != "" {
		if out1.Aborted == "timecap" {
			res.Class, res.Message = "no-termination", "client did not finish within the simulated time bound"
		}
		return res
	}
	// second run: same scenario, the recorded decisions replayed, colours off
	rs := &ReplaySource{Rec: out1.Trace}
	out2, proc2, plain := c16RunOnce(t, sc, rs, false, false)
	if !check(out2, proc2, "colours off") {
		return res
	}
	if out2.Aborted != "" {
		return res
	}
	a, b := stripSGR(col), stripSGR(plain)
	same := bytes.Equal(a, b)
	if !same && len(sc.Servers) > 1 {
		same = sortedLines(a) == sortedLines(b)
	}
	if !same {
		res.Class = "colouring-alters-text"
		res.Message = "with the escape sequences removed the coloured output differs from the uncoloured output: " + diffMsg(b, a)
	}
	return res
}

func c16Shape(s Scenario) string {
	sc := s.(*C16Scenario)
	var ms []string
	for _, sv := range sc.Servers {
		for _, m := range sv.Messages {
			ms = append(ms, fmt.Sprintf("%x", Mix(0, string(m))&0xfffff))
		}
	}
	return fmt.Sprintf("%s/s%d/%s", sc.Client, len(sc.Servers), strings.Join(ms, ","))
}

func c16Sample(s Scenario) any {
	sc := s.(*C16Scenario)
	var svs []any
	for _, sv := range sc.Servers {
		var ms []string
		for _, m := range sv.Messages {
			ms = append(ms, fmt.Sprintf("%q", trunc(string(m), 70)))
		}
		svs = append(svs, map[string]any{"messages": ms, "chunk_max": sv.ChunkMax, "pause_ms": sv.PauseMs, "close_handshake": sv.Syn})
	}
	return map[string]any{"client": sc.Client, "servers": svs, "net": sc.Net, "sched": sc.Sched}
}

func c16Shrink(s Scenario) []Scenario {
	sc := s.(*C16Scenario)
	var out []Scenario
	cl := func() *C16Scenario {
		n := *sc
		n.Servers = nil
		for _, sv := range sc.Servers {
			sv.Messages = append([][]byte(nil), sv.Messages...)
			n.Servers = append(n.Servers, sv)
		}
		return &n
	}
	for si := range sc.Servers {
		if len(sc.Servers) > 1 {
			n := cl()
			n.Servers = append(n.Servers[:si], n.Servers[si+1:]...)
			out = append(out, n)
		}
		for mi := range sc.Servers[si].Messages {
			if len(sc.Servers[si].Messages) > 1 {
				n := cl()
				n.Servers[si].Messages = append(n.Servers[si].Messages[:mi], n.Servers[si].Messages[mi+1:]...)
				out = append(out, n)
			}
		}
		if sc.Servers[si].ChunkMax > 0 {
			n := cl()
			n.Servers[si].ChunkMax = 0
			out = append(out, n)
		}
	}
	n := cl()
	n.Sched = SchedProfile{Mode: "fifo"}
	n.Net = verifsimnet.Profile{}
	out = append(out, n)
	return out
}

func init() {
	Register(&Prop{
		ID:    "C16",
		Level: "exploration",
		Rule: "seeded generation of byte streams sent by 1-3 harness-scripted SSH servers to the real dcat/dgrep/dtail/dmap/dtailhealth clients: REMOTE records with 0-9 fields, " +
			"SERVER/CLIENT records with 0-4 fields, look-alike prefixes, last fields starting with WARN/ERROR/FATAL, empty messages, hidden '.' messages, well-formed and " +
			"malformed AGGREGATE payloads (counts, ≔/∥ structure), arbitrary bytes, embedded escape sequences and newlines, long messages; written in chunks down to 1 byte. " +
			"Every scenario is executed twice with the same decision trace, colours on and off: no panic may reach the top of a client goroutine, and the two outputs must be " +
			"equal after removing SGR escape sequences from both. distinct = (stream set, schedule hash); every run is non-trivial",
		Real: []string{"internal/clients (all five clients)", "internal/clients/handlers (ClientHandler, MaprHandler, HealthHandler)", "internal/mapr/client", "internal/color, internal/color/brush",
			"internal/io/dlog + stdout logger", "x/crypto/ssh client side over simnet"},
		Stub:        []string{"the servers are the harness's own x/crypto/ssh servers (hostile by design)", "cmd/* main replicas"},
		Assumptions: []string{"with several servers the two outputs are compared as multisets of lines (interleaving may differ between the two executions)"},
		New:         func() Scenario { return &C16Scenario{} },
		Gen:         c16Gen,
		Run:         c16Run,
		Shrink:      c16Shrink,
		Shape:       c16Shape,
		Sample:      c16Sample,
		Triggers:    map[string]func(Scenario) (Scenario, bool){},
	})
}
