package verifharness

import (
	"context"
	"crypto/ed25519"
	"crypto/rand"
	"encoding/pem"
	"fmt"
	"net"
	"os"
	"path/filepath"
	"sync"
	"time"

	"github.com/mimecast/dtail/internal/clients"
	"github.com/mimecast/dtail/internal/config"
	"github.com/mimecast/dtail/internal/io/dlog"
	"github.com/mimecast/dtail/internal/io/line"
	"github.com/mimecast/dtail/internal/io/pool"
	"github.com/mimecast/dtail/internal/omode"
	"github.com/mimecast/dtail/internal/server"
	"github.com/mimecast/dtail/internal/source"
	"github.com/mimecast/dtail/internal/verifsim"
	"github.com/mimecast/dtail/internal/verifsimnet"

	gossh "golang.org/x/crypto/ssh"
)

// World is one run's set of simulated processes, files and network.
type World struct {
	Sim         *verifsim.Sim
	Net         *verifsimnet.Net
	ClientNode  *verifsim.Node
	Dir         string // per-run scratch directory (also the cwd)
	DriverPanic string

	stdoutFile *os.File
	oldStdout  *os.File
	oldCwd     string
	oldHome    string
	cancels    []context.CancelFunc
	Servers    []*ServerProc

	// ConfigHook re-applies scenario settings to config.* after config.Setup.
	ConfigHook func()
	// BeforeStart is called after the client object exists, before Start.
	BeforeStart func(p *ClientProc)
}

// ScratchRoot is where per-run directories live.
func ScratchRoot() string {
	if d := os.Getenv("VERIF_SCRATCH"); d != "" {
		return d
	}
	return "/dev/shm"
}

var worldCtr int
var devNull *os.File

func newWorld(sim *verifsim.Sim) *World {
	// process-wide state that survives a run: start every run from the same
	pool.VerifReset()
	line.VerifReset()
	worldCtr++
	// fixed-length path: the path is part of commands and log records, so its
	// length must not differ between a run and its replay in another process
	// ... and unique per run, so that descriptors leaked by an earlier run of
	// this process can never be mistaken for this run's
	dir := filepath.Join(ScratchRoot(), fmt.Sprintf("dsim-w-%010d-%07d", os.Getpid(), worldCtr))
	os.RemoveAll(dir)
	must(os.MkdirAll(filepath.Join(dir, "cache"), 0755))
	must(os.MkdirAll(filepath.Join(dir, "home", ".ssh"), 0755))
	must(os.MkdirAll(filepath.Join(dir, "data"), 0755))
	w := &World{Sim: sim, Dir: dir}
	w.oldCwd, _ = os.Getwd()
	must(os.Chdir(dir))
	w.oldHome = os.Getenv("HOME")
	os.Setenv("HOME", filepath.Join(dir, "home"))
	f, err := os.Create(filepath.Join(dir, "stdout"))
	must(err)
	w.stdoutFile = f
	w.oldStdout = os.Stdout
	os.Stdout = f
	// dtail reads from stdin in serverless mode unless stdin is a character
	// device (a terminal); /dev/null is one
	if devNull == nil {
		devNull, err = os.Open("/dev/null")
		must(err)
	}
	os.Stdin = devNull
	return w
}

func must(err error) {
	if err != nil {
		panic(err)
	}
}

func (w *World) cancelAll() {
	for _, c := range w.cancels {
		c()
	}
}

func (w *World) cleanup() {
	os.Stdout = w.oldStdout
	w.stdoutFile.Close()
	os.Chdir(w.oldCwd)
	os.Setenv("HOME", w.oldHome)
	os.RemoveAll(w.Dir)
	dlog.VerifReset()
	pool.VerifReset()
	line.VerifReset()
}

// Data returns the path of a data file of this run.
func (w *World) Data(name string) string { return filepath.Join(w.Dir, "data", name) }

// WriteFile creates a data file.
func (w *World) WriteFile(name string, content []byte) string {
	p := w.Data(name)
	must(os.MkdirAll(filepath.Dir(p), 0755))
	must(os.WriteFile(p, content, 0644))
	return p
}

// StdoutSize is the number of bytes written to the (redirected) stdout.
func (w *World) StdoutSize() int64 {
	st, err := w.stdoutFile.Stat()
	if err != nil {
		return 0
	}
	return st.Size()
}

// Stdout returns the first n bytes of the captured stdout (n<0: all).
func (w *World) Stdout(n int64) []byte {
	b, err := os.ReadFile(filepath.Join(w.Dir, "stdout"))
	must(err)
	if n >= 0 && int64(len(b)) > n {
		b = b[:n]
	}
	return b
}

// Ctx returns a context cancelled at cleanup.
func (w *World) Ctx() (context.Context, context.CancelFunc) {
	ctx, cancel := context.WithCancel(context.Background())
	w.cancels = append(w.cancels, cancel)
	return ctx, cancel
}

// Sleep parks the calling (harness) goroutine for d of fake time.
func (w *World) Sleep(d time.Duration) {
	verifsim.Yield("harness/sleep")
	time.Sleep(d)
	verifsim.Yield("harness/slept")
}

// ---------------------------------------------------------------------------
// Client process: a replica of cmd/*/main.go after flag parsing.

// ClientProc describes one run of a dtail client binary.
type ClientProc struct {
	Kind string // cat | grep | tail | map | health
	Args config.Args

	Status    int
	Exited    bool
	ExitFake  time.Duration
	StdoutCut int64 // stdout size at process exit
	Cancel    context.CancelFunc
	Panic     string
	MaprMode  int // clients.MaprClientMode for Kind "map"
	started   time.Time
}

// DefaultArgs mirrors the flag defaults of cmd/dcat etc.
func DefaultArgs() config.Args {
	return config.Args{
		ConnectionsPerCPU: config.DefaultConnectionsPerCPU,
		SSHPort:           config.DefaultSSHPort,
		ConfigFile:        "none",
		LogDir:            "~/log",
		Logger:            "stdout",
		LogLevel:          config.DefaultLogLevel,
		UserName:          "simuser",
	}
}

type starter interface {
	Start(ctx context.Context, statsCh <-chan string) int
}

// RunClient runs a client to completion on the calling goroutine (which must
// belong to the client node). separateServer tells the logging overlay
// whether server-package code in this process belongs to a dserver.
func (w *World) RunClient(p *ClientProc, separateServer bool) {
	p.started = time.Now()
	args := p.Args
	func() {
		defer func() {
			if r := recover(); r != nil {
				if _, ok := r.(abortRun); ok {
					panic(r)
				}
				p.Panic = fmt.Sprint(r)
			}
		}()
		src := source.Client
		if p.Kind == "health" {
			src = source.HealthCheck
		}
		config.Setup(src, &args, nil)
		if w.ConfigHook != nil {
			// config.* is shared by all simulated processes of the world: the
			// scenario re-applies its server-side settings after every Setup
			w.ConfigHook()
		}
		ctx, cancel := context.WithCancel(context.Background())
		p.Cancel = cancel
		w.cancels = append(w.cancels, cancel)
		var wg sync.WaitGroup
		wg.Add(1)
		dlog.VerifStart(ctx, &wg, source.Client, separateServer)

		var c starter
		var err error
		switch p.Kind {
		case "cat":
			c, err = clients.NewCatClient(args)
		case "grep":
			c, err = clients.NewGrepClient(args)
		case "tail":
			c, err = clients.NewTailClient(args)
		case "map":
			c, err = clients.NewMaprClient(args, clients.MaprClientMode(p.MaprMode))
		case "health":
			c, err = clients.NewHealthClient(args)
		default:
			panic("unknown client kind " + p.Kind)
		}
		if err != nil {
			panic(err)
		}
		if w.BeforeStart != nil {
			w.BeforeStart(p)
		}
		statsCh := make(chan string) // stub for io/signal.InterruptCh
		p.Status = c.Start(ctx, statsCh)
		cancel()
		verifsim.Yield("harness/mainwait")
		wg.Wait()
		verifsim.Yield("harness/mainexit")
	}()
	p.Exited = true
	p.ExitFake = time.Since(p.started)
	p.StdoutCut = w.StdoutSize()
}

// ---------------------------------------------------------------------------
// Server process

type ServerProc struct {
	Node   *verifsim.Node
	Srv    *server.Server
	Cancel context.CancelFunc
	Ready  bool
}

var hostKeyPEM []byte

func hostKey() []byte {
	if hostKeyPEM == nil {
		_, priv, err := ed25519.GenerateKey(rand.Reader)
		must(err)
		blk, err := gossh.MarshalPrivateKey(priv, "")
		must(err)
		hostKeyPEM = pem.EncodeToMemory(blk)
	}
	return hostKeyPEM
}

// UserKey is a client key pair usable in scenarios.
type UserKey struct {
	PrivPEM []byte
	PubLine []byte // authorized_keys line
	Signer  gossh.Signer
}

var userKeys []*UserKey

// Key returns the i-th pre-generated ed25519 user key.
func Key(i int) *UserKey {
	for len(userKeys) <= i {
		_, priv, err := ed25519.GenerateKey(rand.Reader)
		must(err)
		blk, err := gossh.MarshalPrivateKey(priv, "")
		must(err)
		signer, err := gossh.NewSignerFromKey(priv)
		must(err)
		userKeys = append(userKeys, &UserKey{PrivPEM: pem.EncodeToMemory(blk),
			PubLine: gossh.MarshalAuthorizedKey(signer.PublicKey()), Signer: signer})
	}
	return userKeys[i]
}

// InstallUserKey writes cache/<user>.authorized_keys and the client's private
// key file; returns the private key path.
func (w *World) InstallUserKey(user string, k *UserKey) string {
	must(os.WriteFile(filepath.Join(w.Dir, "cache", user+".authorized_keys"), k.PubLine, 0600))
	p := filepath.Join(w.Dir, "home", ".ssh", "id_sim_"+user)
	must(os.WriteFile(p, k.PrivPEM, 0600))
	return p
}

// SetupServerConfig initialises config.* the way cmd/dserver does, then lets
// the scenario adjust it.
func (w *World) SetupServerConfig(adjust func()) {
	args := config.Args{ConfigFile: "none", SSHPort: config.DefaultSSHPort, LogLevel: config.DefaultLogLevel,
		Logger: "none", LogDir: "log"}
	config.Setup(source.Server, &args, nil)
	if adjust != nil {
		w.ConfigHook = adjust
		adjust()
	}
	// the dserver process's loggers (the client's VerifStart later installs
	// equivalent ones)
	ctx, cancel := context.WithCancel(context.Background())
	w.cancels = append(w.cancels, cancel)
	var wg sync.WaitGroup
	wg.Add(1)
	dlog.VerifStart(ctx, &wg, source.Client, true)
}

// StartServer starts a dserver on a new node with the given host name. The
// caller must have written config (config.Setup) before.
func (w *World) StartServer(hostname string, ip net.IP) *ServerProc {
	must(os.WriteFile(filepath.Join(w.Dir, "cache", "ssh_host_key"), hostKey(), 0600))
	node := w.Sim.NewNode("server:"+hostname, "server", hostname)
	if w.Net != nil {
		w.Net.AddHost(hostname, ip)
	}
	sp := &ServerProc{Node: node}
	ctx, cancel := context.WithCancel(context.Background())
	sp.Cancel = cancel
	w.cancels = append(w.cancels, cancel)
	w.Servers = append(w.Servers, sp)
	w.Sim.GoOn(node, "harness/server", func() {
		sp.Srv = server.New()
		sp.Ready = true
		sp.Srv.Start(ctx)
	})
	return sp
}

var _ = omode.CatClient
