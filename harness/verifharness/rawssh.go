package verifharness

import (
	"encoding/base64"
	"fmt"
	"io"
	"os"
	"strings"
	"sync"
	"time"

	"github.com/mimecast/dtail/internal/config"
	"github.com/mimecast/dtail/internal/verifsim"
	"github.com/mimecast/dtail/internal/verifsimnet"

	gossh "golang.org/x/crypto/ssh"
)

// RawSession is a harness-driven SSH client session against a simulated
// dserver (used where the property is about the server: C09 C10 C13 C14).
type RawSession struct {
	W       *World
	Name    string
	Conn    *verifsimnet.Conn
	Client  *gossh.Client
	Sess    *gossh.Session
	Stdin   io.WriteCloser
	stdout  io.Reader
	mu      sync.Mutex
	msgs    []string // complete protocol messages received
	partial []byte
	EOF     bool
	ReadErr error
	DialErr error
	done    chan struct{}
	PaceMs  int // pause between reads
}

// RawDial connects and authenticates. The calling goroutine must belong to
// the client node.
func (w *World) RawDial(name, host, user string, auth []gossh.AuthMethod, timeout time.Duration) *RawSession {
	rs := &RawSession{W: w, Name: name, done: make(chan struct{})}
	addr := fmt.Sprintf("%s:%d", host, config.DefaultSSHPort)
	conn, err := w.Net.Dial(addr, timeout)
	if err != nil {
		rs.DialErr = err
		return rs
	}
	rs.Conn = conn
	cfg := &gossh.ClientConfig{User: user, Auth: auth, HostKeyCallback: gossh.InsecureIgnoreHostKey(), Timeout: timeout}
	if timeout > 0 {
		conn.SetDeadline(time.Now().Add(timeout))
	}
	c, chans, reqs, err := gossh.NewClientConn(conn, addr, cfg)
	if err != nil {
		rs.DialErr = err
		conn.Close()
		return rs
	}
	conn.SetDeadline(time.Time{})
	rs.Client = gossh.NewClient(c, chans, reqs)
	return rs
}

// Shell opens a session channel with a shell request and starts the reader.
func (rs *RawSession) Shell() error {
	sess, err := rs.Client.NewSession()
	if err != nil {
		return err
	}
	rs.Sess = sess
	if rs.Stdin, err = sess.StdinPipe(); err != nil {
		return err
	}
	if rs.stdout, err = sess.StdoutPipe(); err != nil {
		return err
	}
	if err := sess.Shell(); err != nil {
		return err
	}
	rs.W.Sim.GoOn(rs.W.ClientNode, "harness/rawreader", rs.readLoop)
	return nil
}

func (rs *RawSession) readLoop() {
	defer close(rs.done)
	buf := make([]byte, 8192)
	for {
		n, err := rs.stdout.Read(buf)
		if n > 0 {
			rs.mu.Lock()
			for _, b := range buf[:n] {
				if b == 0xAC {
					rs.msgs = append(rs.msgs, string(rs.partial))
					rs.partial = rs.partial[:0]
				} else {
					rs.partial = append(rs.partial, b)
				}
			}
			rs.mu.Unlock()
		}
		if err != nil {
			rs.mu.Lock()
			rs.EOF = true
			if err != io.EOF {
				rs.ReadErr = err
			}
			rs.mu.Unlock()
			return
		}
		if rs.PaceMs > 0 {
			rs.W.Sleep(time.Duration(rs.PaceMs) * time.Millisecond)
		} else {
			verifsim.Yield("harness/rawread")
		}
	}
}

// Command sends one protocol command.
func (rs *RawSession) Command(cmd string) error {
	enc := base64.StdEncoding.EncodeToString([]byte(cmd))
	_, err := rs.Stdin.Write([]byte(fmt.Sprintf("protocol 4.1 base64 %s;", enc)))
	return err
}

// Raw writes raw bytes to the session.
func (rs *RawSession) Raw(b []byte) error {
	_, err := rs.Stdin.Write(b)
	return err
}

// Messages returns a copy of the messages received so far.
func (rs *RawSession) Messages() []string {
	rs.mu.Lock()
	defer rs.mu.Unlock()
	return append([]string(nil), rs.msgs...)
}

// Ended reports whether the server side closed the stream.
func (rs *RawSession) Ended() bool {
	rs.mu.Lock()
	defer rs.mu.Unlock()
	return rs.EOF
}

// Close closes the SSH client (orderly).
func (rs *RawSession) Close() {
	if rs.Client != nil {
		rs.Client.Close()
	} else if rs.Conn != nil {
		rs.Conn.Close()
	}
}

// AckLoop answers the server's close handshake like a real client does.
func (rs *RawSession) AckClose() {
	rs.Command(".ack close connection")
}

// CatCommand renders the command a dcat/dgrep client would send.
func CatCommand(mode, path string, opts string) string {
	return fmt.Sprintf("%s:%s %s regex:noop ", mode, opts, path)
}

// openReadFDs lists the paths under dir that this process holds open
// read-only (the server's readers), with multiplicity.
func openReadFDs(dir string) []string {
	var out []string
	ents, err := os.ReadDir("/proc/self/fd")
	if err != nil {
		return nil
	}
	for _, e := range ents {
		l, err := os.Readlink("/proc/self/fd/" + e.Name())
		if err != nil || !strings.HasPrefix(l, dir) {
			continue
		}
		b, err := os.ReadFile("/proc/self/fdinfo/" + e.Name())
		if err != nil {
			continue
		}
		for _, ln := range strings.Split(string(b), "\n") {
			if strings.HasPrefix(ln, "flags:") {
				var fl int64
				fmt.Sscanf(strings.TrimSpace(strings.TrimPrefix(ln, "flags:")), "%o", &fl)
				if fl&3 == 0 {
					out = append(out, l)
				}
			}
		}
	}
	return out
}
