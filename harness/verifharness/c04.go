package verifharness

import (
	"bytes"
	"fmt"
	"os"
	"path/filepath"
	"strconv"
	"strings"
	"testing"
	"time"

	"github.com/mimecast/dtail/internal/verifsim"
	"github.com/mimecast/dtail/internal/verifsimnet"
)

// C04 — following a file delivers every appended line once, in order
// (DESIGN.md §5 C04).

type C04Write struct {
	DelayMs int `json:"delay_ms"` // pause before this write()
	Len     int `json:"len"`      // bytes of the append stream written by this call
}

type C04File struct {
	Initial      int        `json:"initial"`       // number of pre-existing lines
	InitialNoNL  bool       `json:"initial_no_nl"` // pre-existing content ends without newline
	LineLens     []int      `json:"line_lens"`     // payload length of each appended line
	TrailingPart int        `json:"trailing_part"` // bytes of an unterminated last line
	Writes       []C04Write `json:"writes"`        // chunking of the append stream
	// RotateAt > 0: before write number RotateAt the writer completes the current
	// line, renames the file to <name>.1 and carries on in a newly created file
	// of the old name (log rotation)
	RotateAt int `json:"rotate_at,omitempty"`
}

type C04Scenario struct {
	ScenarioBase
	Transport string              `json:"transport"`
	Regex     bool                `json:"regex"` // follow with --regex ":K:"
	KeepEvery int                 `json:"keep_every"`
	Cfg       ServerCfg           `json:"cfg"`
	Files     []C04File           `json:"files"`
	StartMs   int                 `json:"start_ms"` // writer starts this long after the client
	Stalls    []StallSpec         `json:"stalls"`
	Net       verifsimnet.Profile `json:"net"`
}

const c04Sentinels = 3

// special values in C04File.LineLens (scenarios with a small MaxLineLength)
const (
	c04Empty    = -1
	c04ExactMLL = -2
)

func (sc *C04Scenario) keep(n int) bool {
	if !sc.Regex {
		return true
	}
	return sc.KeepEvery <= 1 || n%sc.KeepEvery == 0
}

var c04Alphabet = []string{"a", "b", "c", "x", "y", "0", "1", " ", "é", "ü", "ж", "日", "-", "_"}

func (sc *C04Scenario) line(fi, n, plen int) string {
	m := "D"
	if sc.keep(n) {
		m = "K"
	}
	var b strings.Builder
	if plen == c04Empty {
		return "" // a truly empty line (a newline alone)
	}
	fmt.Fprintf(&b, "T%d:%d:%s:", fi, n, m)
	if plen == c04ExactMLL {
		// padded to exactly MaxLineLength bytes: the reader's split logic fires
		// with nothing left over
		for b.Len() < sc.Cfg.MLL {
			b.WriteByte('x')
		}
		return b.String()
	}
	for b.Len() < len(fmt.Sprintf("T%d:%d:%s:", fi, n, m))+plen {
		b.WriteString(c04Alphabet[(b.Len()*7+n*3+fi)%len(c04Alphabet)])
	}
	return b.String()
}

// stream returns the bytes appended to file fi (lines then the sentinels are
// appended separately by the driver).
func (sc *C04Scenario) appendLines(fi int) []string {
	f := sc.Files[fi]
	var out []string
	for k, l := range f.LineLens {
		out = append(out, sc.line(fi, f.Initial+k+1, l))
	}
	return out
}

func c04Gen(r *Rand, tier string, i int) Scenario {
	sc := &C04Scenario{}
	sc.Sched = GenSched(r)
	sc.Transport = PickOf(r, "serverless", "serverless", "ssh")
	sc.Regex = r.Bool(0.4)
	sc.KeepEvery = PickOf(r, 1, 2, 3)
	sc.Cfg.MLL = 1024 * 1024
	// 15 %: MaxLineLength 64 with lines of exactly that length and truly empty
	// lines (every line stays within the limit, so no record is a fragment)
	smallMLL := r.Bool(0.15)
	if smallMLL {
		sc.Cfg.MLL = 64
	}
	sc.StartMs = PickOf(r, 0, 1, 20, 150, 150, 400)
	nf := PickOf(r, 1, 1, 2)
	for f := 0; f < nf; f++ {
		cf := C04File{Initial: PickOf(r, 0, 1, 5, 50), InitialNoNL: r.Bool(0.15)}
		nl := PickOf(r, 0, 1, 3, 10, 30, 99, 100, 150, 300)
		if tier == "quick" && nl == 300 {
			nl = 150
		}
		total := 0
		for k := 0; k < nl; k++ {
			l := PickOf(r, 0, 1, 5, 20, 20, 60, 200)
			if smallMLL {
				l = PickOf(r, 0, 1, 5, 5, c04Empty, c04Empty, c04ExactMLL, c04ExactMLL)
			}
			cf.LineLens = append(cf.LineLens, l)
		}
		if r.Bool(0.3) {
			cf.TrailingPart = r.Range(1, 30)
			if smallMLL {
				cf.TrailingPart = r.Range(1, 8)
			}
		}
		// build the stream length to chunk it
		tmp := &C04Scenario{Regex: sc.Regex, KeepEvery: sc.KeepEvery, Cfg: sc.Cfg, Files: append(append([]C04File(nil), sc.Files...), cf)}
		for _, ln := range tmp.appendLines(f) {
			total += len(ln) + 1
		}
		total += cf.TrailingPart
		style := r.Intn(4)
		for rem := total; rem > 0; {
			var n int
			switch style {
			case 0: // line-ish chunks
				n = r.Range(1, 80)
			case 1: // tiny chunks (inside lines and characters)
				n = r.Range(1, 4)
			case 2: // big bursts
				n = r.Range(200, 6000)
			default:
				n = PickOf(r, 1, 3, 17, 64, 500, 3000)
			}
			if n > rem {
				n = rem
			}
			d := PickOf(r, 0, 0, 0, 1, 1, 50, 99, 100, 101, 250)
			if r.Bool(0.02) {
				// around the periodic truncation check (every 3 s)
				d = PickOf(r, 2900, 3000, 3100, 6050)
			}
			cf.Writes = append(cf.Writes, C04Write{DelayMs: d, Len: n})
			rem -= n
		}
		if len(cf.Writes) > 400 {
			// bound run length: merge the tail
			rest := 0
			for _, w := range cf.Writes[400:] {
				rest += w.Len
			}
			cf.Writes = append(cf.Writes[:400], C04Write{DelayMs: 10, Len: rest})
		}
		sc.Files = append(sc.Files, cf)
	}
	switch r.Intn(5) {
	case 0:
		sc.Stalls = append(sc.Stalls, StallSpec{Name: "consumer.uniform", Site: siteStdoutLock, Suffix: "/lock", From: 0, To: -1, DurMs: PickOf(r, 1, 5)})
	case 1:
		h := r.Intn(200)
		sc.Stalls = append(sc.Stalls, StallSpec{Name: "consumer.single", Site: siteStdoutLock, Suffix: "/lock", From: h, To: h + 1, DurMs: PickOf(r, 200, 2000)})
	}
	if !smallMLL && r.Bool(0.06) {
		// log rotation in the second half of the stream (the new file stays
		// shorter than what was read from the old one, so the periodic check
		// notices it)
		f := &sc.Files[0]
		if n := len(f.Writes); n >= 4 {
			f.RotateAt = r.Range(n/2, n-1)
		}
	}
	if !smallMLL && (r.Bool(0.05) || os.Getenv("VERIF_C04_OVERFLOW") != "") {
		// a slight overflow after a long quiet stretch: 200-330 lines delivered
		// without loss, then the consumer pauses once while a burst of a little
		// more than the queues hold is written, so that only a handful of lines is
		// dropped among hundreds delivered (a transmission rate of 99.x %)
		sc.Regex, sc.KeepEvery = false, 1
		// (serverless: over SSH the 2 MiB channel window absorbs any such burst;
		// there the queues hold 98-100 lines)
		sc.Transport = "serverless"
		a := PickOf(r, r.Range(200, 330), r.Range(400, 900))
		burst := 97 + r.Intn(9)
		if r.Bool(0.2) {
			burst = 100 + r.Intn(130)
		}
		tail := r.Range(3, 12)
		cf := C04File{Initial: PickOf(r, 0, 5)}
		for k := 0; k < a+burst+tail; k++ {
			cf.LineLens = append(cf.LineLens, 20)
		}
		tmp := &C04Scenario{Regex: sc.Regex, KeepEvery: sc.KeepEvery, Cfg: sc.Cfg, Files: []C04File{cf}}
		lens := []int{}
		for _, ln := range tmp.appendLines(0) {
			lens = append(lens, len(ln)+1)
		}
		sum := func(from, to int) int {
			t := 0
			for _, l := range lens[from:to] {
				t += l
			}
			return t
		}
		for k := 0; k < a; k += 10 {
			e := k + 10
			if e > a {
				e = a
			}
			cf.Writes = append(cf.Writes, C04Write{DelayMs: 20, Len: sum(k, e)})
		}
		cf.Writes = append(cf.Writes, C04Write{DelayMs: 60, Len: sum(a, a+burst)})
		cf.Writes = append(cf.Writes, C04Write{DelayMs: 3000, Len: sum(a+burst, a+burst+tail)})
		sc.Files = []C04File{cf}
		// (the client's stdout logger is entered twice per record)
		h := 2*a - r.Intn(8)
		sc.Stalls = []StallSpec{{Name: fmt.Sprintf("consumer.single(a=%d,burst=%d)", a, burst), Site: siteStdoutLock, Suffix: "/lock", From: h, To: h + 1, DurMs: 2000}}
	}
	if sc.Transport == "ssh" {
		sc.Net = genNetProfile(r)
		if sc.Net.ChunkMax > 0 && sc.Net.ChunkMax < 64 {
			sc.Net.ChunkMax = 1400
		}
	}
	return sc
}

// followOpen reports whether this process holds a read-only descriptor on
// path (the tail reader's; the harness's own writer descriptor is write-only).
func followOpen(path string) bool {
	open, _ := followState(path)
	return open
}

// followState also returns the follower's position in the file (the largest
// one, should it hold several read-only descriptors on the path).
func followState(path string) (open bool, pos int64) {
	ents, err := os.ReadDir("/proc/self/fd")
	if err != nil {
		return false, 0
	}
	for _, e := range ents {
		l, err := os.Readlink("/proc/self/fd/" + e.Name())
		if err != nil || l != path {
			continue
		}
		b, err := os.ReadFile("/proc/self/fdinfo/" + e.Name())
		if err != nil {
			continue
		}
		ro, p := false, int64(0)
		for _, ln := range strings.Split(string(b), "\n") {
			if strings.HasPrefix(ln, "flags:") {
				fl, _ := strconv.ParseInt(strings.TrimSpace(strings.TrimPrefix(ln, "flags:")), 8, 64)
				ro = fl&3 == 0
			}
			if strings.HasPrefix(ln, "pos:") {
				p, _ = strconv.ParseInt(strings.TrimSpace(strings.TrimPrefix(ln, "pos:")), 10, 64)
			}
		}
		if ro {
			open = true
			if p > pos {
				pos = p
			}
		}
	}
	return open, pos
}

type c04Line struct {
	text  string
	class int // 0 must-not (old), 1 free (straddles follow start), 2 must
}

func c04Run(t *testing.T, s Scenario, src verifsim.DecisionSource, keep bool) *RunResult {
	sc := s.(*C04Scenario)
	res := &RunResult{Info: map[string]any{}}
	var proc *ClientProc
	var stdout []byte
	np := sc.Net
	opts := RunOpts{Src: src, KeepLabels: keep, MaxFake: 30 * time.Minute, Stalls: stallRules(sc.Stalls)}
	if sc.Transport == "ssh" {
		opts.Net = &np
	}
	nf := len(sc.Files)
	truth := make([][]c04Line, nf)
	res.Outcome = RunSim(t, opts, func(w *World) {
		paths := make([]string, nf)
		var rel []string
		for fi, f := range sc.Files {
			var b bytes.Buffer
			for n := 1; n <= f.Initial; n++ {
				ln := sc.line(fi, n, 10)
				b.WriteString(ln)
				truth[fi] = append(truth[fi], c04Line{ln, 0})
				if n < f.Initial || !f.InitialNoNL {
					b.WriteByte('\n')
				}
			}
			name := fmt.Sprintf("t%d.log", fi)
			paths[fi] = w.WriteFile(name, b.Bytes())
			rel = append(rel, name)
		}
		spec := ReadSpec{Kind: "tail", Transport: sc.Transport, Plain: false, NoColor: true, Files: rel}
		if sc.Regex {
			spec.Regex = ":K:"
		}
		keyPath := ""
		if sc.Transport == "ssh" {
			spec.Hosts = []string{"srv1"}
			keyPath = w.StartSSHWorld(spec.Hosts, sc.Cfg, nil)
		} else {
			w.ConfigHook = sc.Cfg.apply
		}
		proc = w.MakeReadClient(spec, keyPath)
		done := make(chan struct{})
		w.Sim.GoOn(w.ClientNode, "harness/client", func() {
			defer close(done)
			w.RunClient(proc, sc.Transport == "ssh")
		})
		w.Sleep(time.Duration(sc.StartMs) * time.Millisecond)

		// one writer per file, run sequentially interleaved by time: simple
		// approach — a goroutine per file
		wdone := make(chan struct{}, nf)
		mainDone := make(chan struct{}, nf)
		sentGo := make(chan struct{})
		w.Sim.GoOn(w.ClientNode, "harness/barrier", func() {
			for range sc.Files {
				verifsim.Yield("harness/waitmain")
				<-mainDone
			}
			drain := 3 * time.Second
			msgs := 0
			for _, f := range sc.Files {
				msgs += 2 * (len(f.LineLens) + c04Sentinels + 1)
			}
			if msgs > 400 {
				msgs = 400 // what can be queued: 100 lines, twice over for good measure
			}
			for _, sp := range sc.Stalls {
				if sp.To < 0 {
					drain += time.Duration(sp.DurMs*msgs) * time.Millisecond
				} else {
					drain += time.Duration(sp.DurMs*(sp.To-sp.From)) * time.Millisecond
				}
			}
			w.Sleep(drain)
			close(sentGo)
		})
		for fi := range sc.Files {
			fi := fi
			w.Sim.GoOn(w.ClientNode, "harness/writer", func() {
				defer func() { wdone <- struct{}{} }()
				f := sc.Files[fi]
				fd, err := os.OpenFile(paths[fi], os.O_APPEND|os.O_WRONLY, 0644)
				must(err)
				defer func() { fd.Close() }()
				lines := sc.appendLines(fi)
				var stream bytes.Buffer
				for _, ln := range lines {
					stream.WriteString(ln)
					stream.WriteByte('\n')
				}
				stream.Write(bytes.Repeat([]byte("p"), f.TrailingPart))
				data := stream.Bytes()
				// per byte: was the follow open when it was written?
				openAt := make([]bool, len(data))
				// after a rotation: the follower holds the new file open but has not read
				// in it yet (position 0) - it may not even have sought to its end: what
				// is written then may or may not be skipped
				freeAt := make([]bool, len(data))
				rotated := false
				pos := 0
				for wi, wr := range f.Writes {
					w.Sleep(time.Duration(wr.DelayMs) * time.Millisecond)
					verifsim.Yield("harness/write")
					if f.RotateAt > 0 && wi == f.RotateAt {
						// complete the current line in the old file, let the follower catch
						// up, rotate
						cut := pos
						if pos > 0 && data[pos-1] != '\n' {
							if k := bytes.IndexByte(data[pos:], '\n'); k >= 0 {
								cut = pos + k + 1
							} else {
								cut = len(data)
							}
						}
						op := followOpen(paths[fi])
						for k := pos; k < cut; k++ {
							openAt[k] = op
						}
						_, err := fd.Write(data[pos:cut])
						must(err)
						pos = cut
						w.Sleep(300 * time.Millisecond)
						fd.Close()
						must(os.Rename(paths[fi], paths[fi]+".1"))
						fd, err = os.OpenFile(paths[fi], os.O_CREATE|os.O_APPEND|os.O_WRONLY, 0644)
						must(err)
						w.Sim.Fault("writer.rotation")
						rotated = true
					}
					end := pos + wr.Len
					if end < pos {
						end = pos
					}
					if end > len(data) {
						end = len(data)
					}
					op, fpos := followState(paths[fi])
					for k := pos; k < end; k++ {
						openAt[k] = op
						freeAt[k] = rotated && op && fpos == 0
					}
					_, err := fd.Write(data[pos:end])
					must(err)
					w.Sim.Fault("writer.chunk")
					pos = end
				}
				if pos < len(data) {
					// (only after shrinking changed the stream length)
					op := followOpen(paths[fi])
					for k := pos; k < len(data); k++ {
						openAt[k] = op
					}
					_, err := fd.Write(data[pos:])
					must(err)
				}
				// classify appended lines
				off := 0
				first := true
				for _, ln := range lines {
					all, none := true, true
					for k := off; k < off+len(ln)+1; k++ {
						if openAt[k] {
							none = false
						} else {
							all = false
						}
						if freeAt[k] {
							all, none = false, false
						}
					}
					cls := 1
					if all {
						cls = 2
					} else if none {
						cls = 0
					}
					if first && f.InitialNoNL && f.Initial > 0 {
						// completes the unterminated pre-existing line: it straddles
						cls = 1
						// the delivered text is the old line's tail plus this one: unknown split, handled as free
					}
					first = false
					truth[fi] = append(truth[fi], c04Line{ln, cls})
					off += len(ln) + 1
				}
				// sentinels: three slow lines per file, written only after EVERY writer
				// has finished its stream and the shared delivery queue had time to
				// drain (3 s plus whatever the consumer pauses add up to): from then on
				// fewer lines are appended than the queue holds, so none may be dropped
				mainDone <- struct{}{}
				verifsim.Yield("harness/waitbarrier")
				<-sentGo
				for k := 0; k < c04Sentinels; k++ {
					n := f.Initial + len(lines) + 1 + k
					ln := sc.line(fi, n, 8)
					if f.TrailingPart > 0 && k == 0 {
						// completes the trailing partial line
						truth[fi] = append(truth[fi], c04Line{strings.Repeat("p", f.TrailingPart) + ln, 1})
					} else {
						cls := 2
						if !followOpen(paths[fi]) {
							cls = 0
						}
						truth[fi] = append(truth[fi], c04Line{ln, cls})
					}
					// in two pieces at the same simulated instant, with a scheduling
					// point in between: the follower may read the first piece, reach the
					// end of the file and look around before the line is completed -
					// and after the last sentinel nothing is ever written again
					half := len(ln) / 2
					_, err := fd.Write([]byte(ln[:half]))
					must(err)
					verifsim.Yield("harness/write")
					_, err = fd.Write([]byte(ln[half:] + "\n"))
					must(err)
					w.Sleep(300 * time.Millisecond)
				}
			})
		}
		for range sc.Files {
			verifsim.Yield("harness/waitwriters")
			<-wdone
		}
		// let the consumer drain, then Ctrl-C
		w.Sleep(5 * time.Second)
		stdout = w.Stdout(-1)
		if proc.Cancel != nil {
			proc.Cancel()
		}
		verifsim.Yield("harness/waitclient")
		select {
		case <-done:
		case <-time.After(30 * time.Second):
		}
	})
	total := 0
	for _, f := range sc.Files {
		total += len(f.LineLens)
	}
	res.NonTrivial = total > 0
	if res.Panic != "" {
		res.Class, res.Message = "panic", res.Panic
		return res
	}
	if res.Aborted != "" {
		if res.Aborted == "timecap" {
			res.Class, res.Message = "no-termination", "scenario did not finish within the simulated time bound"
		}
		return res
	}
	if proc != nil && proc.Panic != "" {
		res.Class, res.Message = "client-panic", proc.Panic
		return res
	}
	if dp := os.Getenv("VERIF_DUMP_STDOUT"); dp != "" {
		os.WriteFile(dp, stdout, 0644)
	}
	cls, msg, drops := c04Oracle(sc, truth, stdout)
	res.Class, res.Message = cls, msg
	res.Info["drops"] = drops
	if os.Getenv("VERIF_C04_OVERFLOW") != "" {
		fmt.Fprintf(os.Stderr, "OVERFLOW drops=%d stalls=%v writes=%d transport=%s start=%d sched=%+v\n", drops, sc.Stalls, len(sc.Files[0].Writes), sc.Transport, sc.StartMs, sc.Sched)
	}
	if drops > 0 {
		res.Probes = addProbe(res.Probes, "tail.lines-dropped-with-indication", drops)
	}
	return res
}

func addProbe(m map[string]int, k string, n int) map[string]int {
	if m == nil {
		m = map[string]int{}
	}
	m[k] += n
	return m
}

func c04Oracle(sc *C04Scenario, truth [][]c04Line, stdout []byte) (string, string, int) {
	type rec struct {
		perc    int
		count   int
		content string
	}
	byFile := map[string][]rec{}
	for _, ln := range strings.Split(strings.TrimSuffix(string(stdout), "\n"), "\n") {
		if ln == "" || strings.HasPrefix(ln, "CLIENT|") || strings.HasPrefix(ln, "SERVER|") {
			continue
		}
		parts := strings.SplitN(ln, "|", 6)
		if len(parts) != 6 || parts[0] != "REMOTE" {
			return "stray-output", fmt.Sprintf("unexpected output line %q", trunc(ln, 100)), 0
		}
		p, _ := strconv.Atoi(strings.TrimSpace(parts[2]))
		c, _ := strconv.Atoi(strings.TrimSpace(parts[3]))
		byFile[parts[4]] = append(byFile[parts[4]], rec{p, c, parts[5]})
	}
	drops := 0
	// the delivery queue is shared by all files of the session
	sessionMusts := 0
	for fi := range sc.Files {
		for _, l := range truth[fi] {
			if l.class >= 1 && (!sc.Regex || strings.Contains(l.text, ":K:")) {
				sessionMusts++
				if sc.Cfg.MLL > 0 && len(l.text) >= sc.Cfg.MLL {
					// a line of MaxLineLength bytes (or more) takes one queue slot per
					// piece, the empty remainder included
					sessionMusts += len(l.text) / sc.Cfg.MLL
				}
			}
		}
	}
	for fi := range sc.Files {
		id := filepath.Base(fmt.Sprintf("t%d.log", fi))
		got := byFile[id]
		tl := truth[fi]
		// expected lines are those matching the filter
		pos := 0
		lastCount := 0
		// scenarios with a small MaxLineLength append truly empty lines and lines
		// of exactly MaxLineLength bytes; the reader may insert a newline after a
		// run of MaxLineLength bytes (C01 permits it), which shows up as one extra
		// empty record per such line - also for a line that was itself dropped
		smallMLL := sc.Cfg.MLL > 0 && sc.Cfg.MLL < 1024
		pendingEmpties := 0
		lastMatched := -1
		emptiesBetween := func(from, to int) (genuine, exact int) {
			for k := from; k < to && k < len(tl); k++ {
				if k < 0 {
					continue
				}
				if tl[k].text == "" && tl[k].class == 2 && !sc.Regex {
					genuine++
				}
				if tl[k].class == 1 {
					// straddles the start of the follow: an empty line may or may not
					// arrive, and of any other line just the final newline may have
					// been written after the start (an empty record, see §9.3)
					exact++
				}
				if len(tl[k].text) > 0 && len(tl[k].text)%sc.Cfg.MLL == 0 {
					exact++
				}
			}
			return
		}
		for gi, g := range got {
			if g.count <= lastCount && sc.Files[fi].RotateAt == 0 {
				return "count-not-increasing", fmt.Sprintf("file %d: record %d carries running number %d after %d", fi, gi+1, g.count, lastCount), drops
			}
			lastCount = g.count
			found := -1
			if g.content == "" && smallMLL {
				// empty records are indistinguishable from each other: they are
				// counted and judged when the next tagged line arrives (below)
				pendingEmpties++
				continue
			}
			for k := pos; k < len(tl); k++ {
				if tl[k].text == g.content {
					found = k
					break
				}
				// a straddling line may arrive as a suffix
				if tl[k].class == 1 && strings.HasSuffix(tl[k].text, g.content) {
					found = k
					break
				}
			}
			if found < 0 {
				// duplicate / reordered / altered?
				for k := 0; k < pos && k < len(tl); k++ {
					if tl[k].text == g.content {
						return "duplicate-or-reordered", fmt.Sprintf("file %d: line %q delivered again or out of order (record %d)", fi, trunc(g.content, 60), gi+1), drops
					}
				}
				return "line-altered", fmt.Sprintf("file %d: delivered line %q is not a line that was appended", fi, trunc(g.content, 80)), drops
			}
			if sc.Regex && !strings.Contains(g.content, ":K:") && tl[found].class != 1 {
				return "unselected-delivered", fmt.Sprintf("file %d: line %q does not match the filter", fi, trunc(g.content, 60)), drops
			}
			if tl[found].class == 0 {
				return "old-content-delivered", fmt.Sprintf("file %d: line %q was in the file before the follow began", fi, trunc(g.content, 60)), drops
			}
			// skipped must-lines form a gap
			gap := 0
			for k := pos; k < found; k++ {
				if tl[k].class == 2 && (!sc.Regex || strings.Contains(tl[k].text, ":K:")) && tl[k].text != "" {
					gap++
				}
			}
			if sc.Files[fi].RotateAt > 0 {
				// a rotated file is judged for what is delivered (nothing old, nothing
				// twice, nothing altered, in order), not for completeness: when the
				// follower notices the rotation it drops what it has not read of the
				// old file and re-opens the new one at its end; the statement does not
				// quantify over rotation
				gap = 0
			}
			if gap > 0 {
				if sessionMusts < 100 {
					return "line-lost", fmt.Sprintf("file %d: %d appended line(s) before %q never delivered although fewer than 100 lines were selected in the whole session (the delivery queue cannot have been full)",
						fi, gap, trunc(g.content, 60)), drops
				}
				if g.perc >= 100 {
					return "silent-drop", fmt.Sprintf("file %d: %d appended line(s) before %q were dropped but the next delivered line reports %d%% transmitted", fi, gap, trunc(g.content, 60), g.perc), drops
				}
				drops += gap
			}
			if smallMLL {
				ge, ex := emptiesBetween(pos, found)
				_, exPrev := emptiesBetween(lastMatched, lastMatched+1)
				if gap == 0 && pendingEmpties < ge {
					miss := ge - pendingEmpties
					if sessionMusts < 100 {
						return "line-lost", fmt.Sprintf("file %d: %d appended empty line(s) before %q never delivered although fewer than 100 lines were selected in the whole session", fi, miss, trunc(g.content, 60)), drops
					}
					if g.perc >= 100 {
						return "silent-drop", fmt.Sprintf("file %d: %d appended empty line(s) before %q were dropped but the next delivered line reports %d%% transmitted", fi, miss, trunc(g.content, 60), g.perc), drops
					}
					drops += miss
				}
				if pendingEmpties > ge+ex+exPrev {
					return "duplicate-or-reordered", fmt.Sprintf("file %d: %d empty records before %q, but only %d empty lines were appended there (plus %d lines of exactly MaxLineLength)", fi, pendingEmpties, trunc(g.content, 60), ge, ex+exPrev), drops
				}
				pendingEmpties = 0
				lastMatched = found
			}
			pos = found + 1
		}
		// everything must-deliver after pos was not delivered
		rest := 0
		for k := pos; k < len(tl); k++ {
			if tl[k].class == 2 && (!sc.Regex || strings.Contains(tl[k].text, ":K:")) && tl[k].text != "" {
				rest++
			}
		}
		if rest > 0 && sc.Files[fi].RotateAt == 0 {
			return "line-lost", fmt.Sprintf("file %d: the last %d selected appended line(s) (including the slow sentinel lines) were never delivered", fi, rest), drops
		}
	}
	return "", "", drops
}

func c04Shape(s Scenario) string {
	sc := s.(*C04Scenario)
	var fs []string
	for _, f := range sc.Files {
		fs = append(fs, fmt.Sprintf("i%d%v/l%d/w%d/t%d", f.Initial, f.InitialNoNL, len(f.LineLens), len(f.Writes), f.TrailingPart))
	}
	var st []string
	for _, sp := range sc.Stalls {
		st = append(st, fmt.Sprintf("%s@%d+%d", sp.Name, sp.From, sp.DurMs))
	}
	return fmt.Sprintf("%s/re%v/%s/start%d/%s", sc.Transport, sc.Regex, strings.Join(fs, ";"), sc.StartMs, strings.Join(st, ","))
}

func c04Sample(s Scenario) any {
	sc := s.(*C04Scenario)
	var fs []map[string]any
	for _, f := range sc.Files {
		w := f.Writes
		if len(w) > 6 {
			w = w[:6]
		}
		fs = append(fs, map[string]any{"initial_lines": f.Initial, "initial_no_newline": f.InitialNoNL, "appended_lines": len(f.LineLens),
			"write_calls": len(f.Writes), "writes_head": w, "trailing_partial_bytes": f.TrailingPart})
	}
	return map[string]any{"transport": sc.Transport, "regex": sc.Regex, "files": fs, "writer_start_ms": sc.StartMs, "stalls": sc.Stalls, "net": sc.Net, "sched": sc.Sched}
}

func c04Shrink(s Scenario) []Scenario {
	sc := s.(*C04Scenario)
	var out []Scenario
	cl := func() *C04Scenario {
		n := *sc
		n.Files = nil
		for _, f := range sc.Files {
			f.LineLens = append([]int(nil), f.LineLens...)
			f.Writes = append([]C04Write(nil), f.Writes...)
			n.Files = append(n.Files, f)
		}
		n.Stalls = append([]StallSpec(nil), sc.Stalls...)
		return &n
	}
	rechunk := func(n *C04Scenario, fi int) {
		// one write per line
		f := &n.Files[fi]
		f.Writes = nil
		tmp := n.appendLines(fi)
		for _, ln := range tmp {
			f.Writes = append(f.Writes, C04Write{DelayMs: 1, Len: len(ln) + 1})
		}
		if f.TrailingPart > 0 {
			f.Writes = append(f.Writes, C04Write{DelayMs: 1, Len: f.TrailingPart})
		}
	}
	if len(sc.Files) > 1 {
		n := cl()
		n.Files = n.Files[:1]
		out = append(out, n)
	}
	for fi, f := range sc.Files {
		if len(f.LineLens) > 0 {
			n := cl()
			n.Files[fi].LineLens = n.Files[fi].LineLens[:len(f.LineLens)/2]
			rechunk(n, fi)
			out = append(out, n)
		}
		if f.TrailingPart > 0 {
			n := cl()
			n.Files[fi].TrailingPart = 0
			rechunk(n, fi)
			out = append(out, n)
		}
		if f.Initial > 0 {
			n := cl()
			n.Files[fi].Initial = 0
			n.Files[fi].InitialNoNL = false
			out = append(out, n)
		}
		n := cl()
		rechunk(n, fi)
		out = append(out, n)
	}
	if len(sc.Stalls) > 0 {
		n := cl()
		n.Stalls = nil
		out = append(out, n)
	}
	if sc.Transport == "ssh" {
		n := cl()
		n.Transport = "serverless"
		out = append(out, n)
	}
	n := cl()
	n.Sched = SchedProfile{Mode: "fifo"}
	out = append(out, n)
	return out
}

func init() {
	Register(&Prop{
		ID:    "C04",
		Level: "exploration",
		Rule: "seeded generation of dtail follows of 1-2 files (serverless / SSH, with and without --regex): 0-50 pre-existing lines (some unterminated), 0-300 appended tagged " +
			"lines (multi-byte UTF-8) written by a simulated writer in write() calls of 1 byte to 6 KB (inside lines and characters, many lines per call) spaced by " +
			"0/1/50/99/100/101/250/3100 ms, an unterminated trailing part, three slow sentinel lines per file behind a barrier (all writers done, queue drained); 15 % with MaxLineLength 64, lines of exactly that length and truly empty lines; consumer pacing; the follow start is observed through " +
			"/proc/self/fdinfo; non-trivial = at least one appended line; distinct = (scenario shape, schedule hash)",
		Real: []string{"internal/clients (tail client)", "internal/server/handlers", "internal/io/fs (readfile tail path, stats)", "internal/server + x/crypto/ssh over simnet (SSH runs)"},
		Stub: []string{"cmd/dtail main replica; Ctrl-C modelled as context cancel", "the log writer is a harness goroutine appending to a real file"},
		Assumptions: []string{"fewer than 100 selected lines in the whole session (all followed files share one queue) means the 100-slot delivery queue can never have been full, so any loss is a violation",
			"with 100 or more, a gap is accepted only if the next delivered line of that file reports < 100 % transmitted", "rotation (rename + create) in 6 % of the scenarios, judged only by what the statement says: no old content - which after a rotation is everything written while the follower had not yet re-opened the path -, nothing twice; no truncation in place (not quantified by the statement)"},
		New:      func() Scenario { return &C04Scenario{} },
		Gen:      c04Gen,
		Run:      c04Run,
		Shrink:   c04Shrink,
		Shape:    c04Shape,
		Sample:   c04Sample,
		Triggers: map[string]func(Scenario) (Scenario, bool){},
	})
}
