package verifharness

import (
	"fmt"
	"net"
	"os"
	"path/filepath"
	"sort"
	"strings"
	"testing"
	"time"

	"github.com/mimecast/dtail/internal/config"
	"github.com/mimecast/dtail/internal/verifsim"
	"github.com/mimecast/dtail/internal/verifsimnet"
)

// C18 — server discovery yields each wanted server exactly once (DESIGN.md §5
// C18). Thin for a simulator: the list is a function of its input except for
// the clock-seeded shuffle; the simulator owns the clock and observes the
// contacts on the simulated network.

type C18Scenario struct {
	ScenarioBase
	Entries  []string `json:"entries"`
	FromFile bool     `json:"from_file"`
	FinalNL  bool     `json:"final_nl"`
	EpochS   int      `json:"epoch_s"` // the client starts this many seconds after the simulated epoch
	Up       []int    `json:"up"`      // indices of entries (hosts) where a server actually listens
	// Tail: a follow client (dtail), which re-dials every server 2 s after its
	// connection failed, until it is interrupted after 5 s: every wanted address is
	// dialled one to four times, nothing else ever
	Tail bool `json:"tail,omitempty"`
	// Slow: addresses that swallow the connection attempt (the dial ends in its
	// 2 s timeout) while the client runs with one connection slot per CPU: the
	// servers beyond the slots wait for seconds before their turn comes
	Slow []string `json:"slow,omitempty"`
	// CRLF: the server file has DOS line ends
	CRLF bool `json:"crlf,omitempty"`
	// HangUp: addresses where something accepts the TCP connection and closes it
	// at once (a server at its connection limit or shutting down, a proxy
	// without a backend)
	HangUp []string `json:"hang_up,omitempty"`
}

func c18Gen(r *Rand, tier string, i int) Scenario {
	sc := &C18Scenario{}
	sc.Sched = GenSched(r)
	n := PickOf(r, 1, 2, 3, 5, 10, 40, 200)
	if r.Bool(0.04) {
		n = PickOf(r, 330, 450) // server files beyond the 4096-byte scanner buffer
	}
	if tier == "thorough" && r.Bool(0.1) {
		n = PickOf(r, 1000, 3000)
	}
	distinct := r.Range(1, n)
	for k := 0; k < n; k++ {
		h := fmt.Sprintf("host%d", r.Intn(distinct))
		switch r.Intn(8) {
		case 0:
			h += ":2222"
		case 1:
			h += fmt.Sprintf(":%d", 2223+r.Intn(3))
		case 2:
			h = strings.ToUpper(h)
		}
		sc.Entries = append(sc.Entries, h)
	}
	sc.FromFile = r.Bool(0.4)
	sc.FinalNL = r.Bool(0.7)
	sc.EpochS = PickOf(r, 0, 1, r.Intn(1000000), r.Intn(1000000))
	sc.Tail = n <= 40 && r.Bool(0.15)
	sc.CRLF = sc.FromFile && r.Bool(0.2)
	if !sc.Tail && n <= 40 && r.Bool(0.2) {
		seenHost := map[string]bool{}
		for _, e := range sc.Entries {
			if a := entryAddr(strings.ToLower(e)); !seenHost[a] && strings.HasSuffix(a, ":2222") && e == strings.ToLower(e) && r.Bool(0.5) {
				seenHost[a] = true
				sc.HangUp = append(sc.HangUp, a)
			}
		}
	}
	if !sc.Tail && (n == 40 || n == 200) && r.Bool(0.3) {
		sc.HangUp = nil
		// more distinct servers than connection slots, most of them not answering
		sc.Entries = nil
		for k := 0; k < n; k++ {
			sc.Entries = append(sc.Entries, fmt.Sprintf("host%d", k))
			if r.Bool(0.8) {
				sc.Slow = append(sc.Slow, entryAddr(sc.Entries[k]))
			}
		}
	}
	return sc
}

func entryAddr(e string) string {
	if strings.Contains(e, ":") {
		return e
	}
	return fmt.Sprintf("%s:%d", e, config.DefaultSSHPort)
}

func c18Run(t *testing.T, s Scenario, src verifsim.DecisionSource, keep bool) *RunResult {
	sc := s.(*C18Scenario)
	res := &RunResult{Info: map[string]any{}}
	np := verifsimnet.Profile{}
	opts := RunOpts{Src: src, KeepLabels: keep, MaxFake: time.Duration(sc.EpochS)*time.Second + 10*time.Minute, Net: &np, MaxSteps: 2000000}
	var dials []string
	var proc *ClientProc
	res.Outcome = RunSim(t, opts, func(w *World) {
		w.Net.AddHost("clienthost", net.IPv4(10, 0, 1, 1))
		w.Sleep(time.Duration(sc.EpochS) * time.Second)
		a := DefaultArgs()
		a.NoColor = true
		a.Plain = true
		a.What = "/var/log/x.log"
		a.TrustAllHosts = true
		keyPath := filepath.Join(w.Dir, "home", ".ssh", "id_sim")
		must(os.WriteFile(keyPath, Key(0).PrivPEM, 0600))
		a.SSHPrivateKeyFilePath = keyPath
		if sc.FromFile {
			p := filepath.Join(w.Dir, "servers.txt")
			nl := "\n"
			if sc.CRLF {
				nl = "\r\n"
			}
			content := strings.Join(sc.Entries, nl)
			if sc.FinalNL {
				content += nl
			}
			must(os.WriteFile(p, []byte(content), 0644))
			a.ServersStr = p
		} else {
			a.ServersStr = strings.Join(sc.Entries, ",")
		}
		for hi, addr := range sc.HangUp {
			host := addr[:strings.LastIndex(addr, ":")]
			hn := w.Sim.NewNode(fmt.Sprintf("hangup%d", hi), "server", host)
			w.Net.AddHost(host, net.IPv4(10, 0, 7, byte(1+hi%250)))
			ready := make(chan struct{})
			w.Sim.GoOn(hn, "harness/hangup", func() {
				l, err := verifsimnet.Listen("tcp", ":2222")
				close(ready)
				if err != nil {
					return
				}
				for {
					c, err := l.Accept()
					if err != nil {
						return
					}
					// back under the controller before anything observable happens
					verifsim.Yield("harness/hangup-accepted")
					c.Close()
					verifsim.Yield("harness/hangup-closed")
				}
			})
			verifsim.Yield("harness/waitlisten")
			<-ready
		}
		if len(sc.Slow) > 0 {
			a.ConnectionsPerCPU = 1
			for _, addr := range sc.Slow {
				w.Net.Blackhole[addr] = true
			}
		}
		proc = &ClientProc{Kind: "cat", Args: a}
		if sc.Tail {
			proc.Kind = "tail"
			done := make(chan struct{})
			w.Sim.GoOn(w.ClientNode, "harness/client", func() {
				defer close(done)
				w.RunClient(proc, false)
			})
			w.Sleep(5 * time.Second)
			if proc.Cancel != nil {
				proc.Cancel()
			}
			verifsim.Yield("harness/waitclient")
			select {
			case <-done:
			case <-time.After(30 * time.Second):
			}
		} else {
			w.RunClient(proc, false)
		}
		dials = append([]string(nil), w.Net.Dials...)
	})
	res.NonTrivial = len(sc.Entries) >= 2
	if res.Panic != "" {
		res.Class, res.Message = "panic", trunc(res.Panic, 800)
		return res
	}
	if proc != nil && proc.Panic != "" {
		res.Class, res.Message = "client-panic", trunc(proc.Panic, 800)
		return res
	}
	if res.Aborted != "" {
		if res.Aborted == "timecap" {
			res.Class, res.Message = "no-termination", "client did not finish within the simulated time bound"
		}
		return res
	}
	want := map[string]int{}
	seen := map[string]bool{}
	for _, e := range sc.Entries {
		if !seen[e] {
			seen[e] = true
			want[entryAddr(e)]++
		}
	}
	got := map[string]int{}
	for _, d := range dials {
		got[d]++
	}
	var diffs []string
	for a, n := range want {
		if sc.Tail {
			if got[a] < 1 || got[a] > 4*n {
				diffs = append(diffs, fmt.Sprintf("%s dialled %d times by a follow client in 5 s (expected 1 to %d)", a, got[a], 4*n))
			}
			continue
		}
		if got[a] != n {
			diffs = append(diffs, fmt.Sprintf("%s contacted %d times (expected %d)", a, got[a], n))
		}
	}
	for a, n := range got {
		if want[a] == 0 {
			diffs = append(diffs, fmt.Sprintf("%s contacted %d times but is not in the list", a, n))
		}
	}
	sort.Strings(diffs)
	if len(diffs) > 0 {
		res.Class = "contacts-differ"
		if len(diffs) > 6 {
			diffs = append(diffs[:6], fmt.Sprintf("... %d more", len(diffs)-6))
		}
		res.Message = fmt.Sprintf("%d entries (%d distinct), clock %d s after epoch: %s", len(sc.Entries), len(seen), sc.EpochS, strings.Join(diffs, "; "))
	}
	return res
}

func c18Shape(s Scenario) string {
	sc := s.(*C18Scenario)
	return fmt.Sprintf("n%d/file%v/nl%v/epoch%d/%x", len(sc.Entries), sc.FromFile, sc.FinalNL, sc.EpochS, Mix(0, strings.Join(sc.Entries, ","))&0xffffff)
}

func c18Sample(s Scenario) any {
	sc := s.(*C18Scenario)
	e := sc.Entries
	if len(e) > 12 {
		e = e[:12]
	}
	return map[string]any{"n_entries": len(sc.Entries), "entries_head": e, "from_file": sc.FromFile, "final_newline": sc.FinalNL, "epoch_s": sc.EpochS}
}

func c18Shrink(s Scenario) []Scenario {
	sc := s.(*C18Scenario)
	var out []Scenario
	if len(sc.Entries) > 1 {
		for _, cut := range [][2]int{{0, len(sc.Entries) / 2}, {len(sc.Entries) / 2, len(sc.Entries)}, {0, len(sc.Entries) - 1}, {1, len(sc.Entries)}} {
			n := *sc
			n.Entries = append([]string(nil), sc.Entries[cut[0]:cut[1]]...)
			out = append(out, &n)
		}
	}
	if sc.FromFile {
		n := *sc
		n.FromFile = false
		out = append(out, &n)
	}
	if sc.EpochS != 0 {
		n := *sc
		n.EpochS = 0
		out = append(out, &n)
	}
	return out
}

func init() {
	Register(&Prop{
		ID:    "C18",
		Level: "exploration",
		Rule: "seeded generation of --servers values: comma lists and server files of 1-200 (thorough: 3000) entries with duplicates, host:port forms and case variants, with and " +
			"without a final newline; the client (real dcat) starts 0..10^6 simulated seconds after the epoch (the shuffle is seeded from the clock); no server listens, every " +
			"dial on the simulated network is refused and recorded. Oracle: multiset of dialled addresses = one dial per distinct entry. non-trivial = at least two entries; " +
			"distinct = (list, epoch). The /regex/ filter cannot be combined with a list through any entry point of this tree (initRegex clears the list; only out-of-tree " +
			"discovery modules would supply one) and is therefore not exercised: this check covers list / file / dedup / shuffle only.",
		Real:        []string{"internal/discovery (list source selection, dedup, shuffle)", "internal/clients (baseClient.makeConnections, connection throttling)", "internal/clients/connectors (ServerConnection dial path)"},
		Stub:        []string{"TCP replaced by simnet (dials are refused and recorded)", "cmd/dcat main replica"},
		Assumptions: []string{"entries are non-empty and ports numeric (an empty entry or a non-numeric port is outside 'wanted servers')"},
		New:         func() Scenario { return &C18Scenario{} },
		Gen:         c18Gen,
		Run:         c18Run,
		Shrink:      c18Shrink,
		Shape:       c18Shape,
		Sample:      c18Sample,
		Triggers:    map[string]func(Scenario) (Scenario, bool){},
	})
}
