// Package verifharness holds the scenarios, oracles and the worker loop of the
// deterministic simulator for mimecast/dtail (see /verif/DESIGN.md). It is
// copied into a scratch copy of the repository (Go's internal/ rule) and built
// as a test binary.
package verifharness

import (
	"encoding/binary"
	"fmt"
	"hash/fnv"
	"os"
	"runtime"
	"runtime/debug"
	"sort"
	"strings"
	"sync/atomic"
	"testing"
	"testing/synctest"
	"time"

	"github.com/mimecast/dtail/internal/verifsim"
	"github.com/mimecast/dtail/internal/verifsimnet"
)

// ---------------------------------------------------------------------------
// PRNG (splitmix64): everything random in a run derives from one integer.

type Rand struct{ s uint64 }

func NewRand(seed uint64) *Rand { return &Rand{s: seed} }

func (r *Rand) U64() uint64 {
	r.s += 0x9e3779b97f4a7c15
	z := r.s
	z = (z ^ (z >> 30)) * 0xbf58476d1ce4e5b9
	z = (z ^ (z >> 27)) * 0x94d049bb133111eb
	return z ^ (z >> 31)
}
func (r *Rand) Intn(n int) int {
	if n <= 1 {
		return 0
	}
	return int(r.U64() % uint64(n))
}
func (r *Rand) Range(lo, hi int) int   { return lo + r.Intn(hi-lo+1) }
func (r *Rand) Float() float64         { return float64(r.U64()>>11) / float64(1<<53) }
func (r *Rand) Bool(p float64) bool    { return r.Float() < p }
func (r *Rand) Fork() *Rand            { return NewRand(r.U64()) }
func PickOf[T any](r *Rand, xs ...T) T { return xs[r.Intn(len(xs))] }

func Mix(seed uint64, parts ...string) uint64 {
	h := fnv.New64a()
	var b [8]byte
	binary.LittleEndian.PutUint64(b[:], seed)
	h.Write(b[:])
	for _, p := range parts {
		h.Write([]byte(p))
		h.Write([]byte{0})
	}
	return NewRand(h.Sum64()).U64()
}

// ---------------------------------------------------------------------------
// Decision sources

// SchedProfile is the schedule part of a run's fault profile (swarm style:
// drawn per run).
type SchedProfile struct {
	Mode    string  `json:"mode"` // fifo | random | pct
	SwitchP float64 `json:"switch_p"`
	SelP    float64 `json:"sel_p"`
	MapP    float64 `json:"map_p"`
	ChunkP  float64 `json:"chunk_p"`
	PCTd    int     `json:"pct_d,omitempty"`
	PCTlen  int     `json:"pct_len,omitempty"`
	// BiasSites: candidates parked at a site containing one of these strings
	// are, with probability BiasP, chosen last (delayed) or first.
	BiasSites []string `json:"bias_sites,omitempty"`
	BiasP     float64  `json:"bias_p,omitempty"`
	// PreemptM > 0: statement-level preemption; each goroutine is parked at
	// about one in PreemptM of the statements it executes (verifsim.Preempt)
	PreemptM int `json:"preempt_m,omitempty"`
}

// curSched/curSeed: schedule profile and seed of the scenario being run (set
// by the wrapper Register installs around Prop.Run; read by RunSim).
var (
	curSched SchedProfile
	curSeed  uint64
)

// GenSched draws a schedule profile.
func GenSched(r *Rand) SchedProfile {
	p := SchedProfile{}
	switch r.Intn(10) {
	case 0, 1:
		p.Mode = "fifo"
		p.SwitchP = 0
	case 2, 3, 4:
		p.Mode = "fifo"
		p.SwitchP = PickOf(r, 0.01, 0.05, 0.2)
	case 5, 6:
		p.Mode = "random"
	default:
		p.Mode = "pct"
		p.PCTd = r.Range(1, 4)
		p.PCTlen = PickOf(r, 200, 1000, 5000)
	}
	if r.Bool(0.12) {
		p.PreemptM = PickOf(r, 3, 10, 10, 30, 100)
	}
	if p.Mode != "fifo" || p.SwitchP > 0 || r.Bool(0.5) {
		p.SelP = PickOf(r, 0.0, 0.1, 0.5, 1.0)
		p.MapP = PickOf(r, 0.0, 0.5, 1.0)
		p.ChunkP = PickOf(r, 0.0, 0.3, 1.0)
	}
	return p
}

// RandomSource draws decisions from a PRNG according to a profile.
type RandomSource struct {
	P       SchedProfile
	r       *Rand
	prio    map[string]uint64
	changes map[int]bool
	low     uint64
}

func NewRandomSource(p SchedProfile, seed uint64) *RandomSource {
	s := &RandomSource{P: p, r: NewRand(Mix(seed, "decisions")), prio: map[string]uint64{}, low: 1 << 20}
	if p.Mode == "pct" {
		s.changes = map[int]bool{}
		l := p.PCTlen
		if l <= 0 {
			l = 1000
		}
		for i := 0; i < p.PCTd; i++ {
			s.changes[s.r.Intn(l)] = true
		}
	}
	return s
}

func (s *RandomSource) Choose(kind string, n int, label string) int {
	switch kind {
	case "sel":
		if s.r.Bool(s.P.SelP) {
			return 1 + s.r.Intn(n-1)
		}
		return 0
	case "map":
		if s.r.Bool(s.P.MapP) {
			return 1 + s.r.Intn(n-1)
		}
		return 0
	case "chunk":
		if s.r.Bool(s.P.ChunkP) {
			return 1 + s.r.Intn(n-1)
		}
		return 0
	}
	return s.r.Intn(n)
}

func (s *RandomSource) ChooseRun(step int, cands []verifsim.CandInfo) int {
	n := len(cands)
	if len(s.P.BiasSites) > 0 && s.r.Bool(s.P.BiasP) {
		for i, c := range cands {
			for _, b := range s.P.BiasSites {
				if strings.Contains(c.Label, b) {
					// delay the biased candidate: pick any other
					if n == 1 {
						return 0
					}
					j := s.r.Intn(n - 1)
					if j >= i {
						j++
					}
					return j
				}
			}
		}
	}
	switch s.P.Mode {
	case "random":
		return s.r.Intn(n)
	case "pct":
		best, bestP := 0, uint64(0)
		for i, c := range cands {
			key := c.Label
			if c.Key != "" {
				key = "g" + c.Key
			}
			p, ok := s.prio[key]
			if !ok {
				p = (1 << 21) + s.r.U64()%(1<<40)
				s.prio[key] = p
			}
			if p > bestP {
				best, bestP = i, p
			}
		}
		if s.changes[step] {
			c := cands[best]
			key := c.Label
			if c.Key != "" {
				key = "g" + c.Key
			}
			s.low--
			s.prio[key] = s.low
		}
		return best
	default:
		if s.P.SwitchP > 0 && s.r.Bool(s.P.SwitchP) {
			return s.r.Intn(n)
		}
		return 0
	}
}

// ReplaySource feeds recorded decisions; beyond the record (or when Strict is
// off and the shape differs) it answers 0, the benign default.
type ReplaySource struct {
	Rec      []verifsim.Decision
	pos      int
	Strict   bool
	Diverged string
}

func (s *ReplaySource) next(kind string, n int) int {
	if s.pos >= len(s.Rec) {
		if s.Strict && s.Diverged == "" {
			s.Diverged = fmt.Sprintf("decision %d (%s/%d) beyond recorded trace", s.pos, kind, n)
		}
		s.pos++
		return 0
	}
	d := s.Rec[s.pos]
	s.pos++
	if d.K != kind || d.N != n {
		if s.Strict && s.Diverged == "" {
			s.Diverged = fmt.Sprintf("decision %d: recorded %s/%d, run asks %s/%d", s.pos-1, d.K, d.N, kind, n)
		}
		if d.C < n {
			return d.C
		}
		return 0
	}
	return d.C
}
func (s *ReplaySource) Choose(kind string, n int, label string) int { return s.next(kind, n) }
func (s *ReplaySource) ChooseRun(step int, cands []verifsim.CandInfo) int {
	return s.next("run", len(cands))
}

// ---------------------------------------------------------------------------
// One simulated run

type RunOpts struct {
	Src        verifsim.DecisionSource
	KeepLabels bool
	// OnSutPanic: see verifsim.Sim.OnPanic
	OnSutPanic func(w *World, g *verifsim.G, msg string) bool
	// FSWriteFault decides the fate of every file write of dtail code (nil: none fail)
	FSWriteFault func(w *World, g *verifsim.G, path string, n int) (int, error)
	MaxSteps     int
	MaxFake      time.Duration
	Net          *verifsimnet.Profile
	Stalls       []*verifsim.StallRule
	OnStep       func(w *World, site string) string
	OnPark       func(w *World, g *verifsim.G)
}

// Outcome is what the simulator observed (independent of any oracle).
type Outcome struct {
	Trace     []verifsim.Decision    `json:"-"`
	Steps     int                    `json:"steps"`
	FakeNs    int64                  `json:"fake_ns"`
	Faults    map[string]int         `json:"faults,omitempty"`
	Probes    map[string]int         `json:"probes,omitempty"`
	SchedHash uint64                 `json:"sched_hash"`
	SitePairs map[[2]string]struct{} `json:"-"`
	Aborted   string                 `json:"aborted,omitempty"`
	Panic     string                 `json:"panic,omitempty"`
	Leaked    int                    `json:"leaked"`
	Choices   int                    `json:"choices"`
}

var Heartbeat atomic.Int64
var gcOff bool

// RunSim executes driver as the scenario's main goroutine inside a fresh
// bubble under a fresh controller.
func RunSim(t *testing.T, o RunOpts, driver func(w *World)) (out Outcome) {
	if !gcOff {
		debug.SetGCPercent(-1)
		gcOff = true
	}
	runtime.GC()
	if o.MaxFake == 0 {
		o.MaxFake = 10 * time.Minute
	}
	func() {
		defer func() {
			if r := recover(); r != nil {
				msg := fmt.Sprint(r)
				if strings.Contains(msg, "blocked goroutines remain") || strings.Contains(msg, "deadlock") {
					out.Leaked++
					return
				}
				out.Panic = "bubble: " + msg
			}
		}()
		synctest.Test(t, func(t *testing.T) {
			sim := verifsim.New(o.Src)
			sim.KeepFull = o.KeepLabels
			sim.Heartbeat = &Heartbeat
			if o.MaxSteps > 0 {
				sim.MaxSteps = o.MaxSteps
			}
			sim.Stalls = o.Stalls
			if curSched.PreemptM > 0 {
				sim.EnablePreempt(uint64(curSched.PreemptM), curSeed)
			}
			w := newWorld(sim)
			if o.OnSutPanic != nil {
				sim.OnPanic = func(g *verifsim.G, msg string) bool { return o.OnSutPanic(w, g, msg) }
			}
			if o.FSWriteFault != nil {
				sim.FSWriteFault = func(g *verifsim.G, path string, n int) (int, error) { return o.FSWriteFault(w, g, path, n) }
			}
			if o.Net != nil {
				w.Net = verifsimnet.New(sim, *o.Net)
				verifsimnet.Install(w.Net)
			}
			if o.OnStep != nil {
				sim.OnStep = func(site string) string { return o.OnStep(w, site) }
			}
			if o.OnPark != nil {
				sim.OnPark = func(g *verifsim.G) { o.OnPark(w, g) }
			}
			w.ClientNode = sim.NewNode("client", "client", "clienthost")
			sim.Activate()
			sim.GoOn(w.ClientNode, "harness/driver", func() {
				defer sim.Finish()
				defer func() {
					if r := recover(); r != nil {
						if a, ok := r.(abortRun); ok {
							sim.Abort(string(a))
							return
						}
						w.DriverPanic = fmt.Sprintf("%v\n%s", r, debug.Stack())
					}
				}()
				driver(w)
			})
			sim.Loop(o.MaxFake)
			out.Trace = sim.Trace
			out.Steps = sim.Steps
			out.FakeNs = int64(sim.Elapsed())
			out.Faults = sim.Faults
			out.Probes = sim.Probes
			out.SchedHash = sim.SchedHash
			out.SitePairs = sim.SitePairs
			out.Aborted = sim.Aborted()
			out.Panic = w.DriverPanic
			if len(sim.SutPanics) > 0 {
				out.Panic = sim.SutPanics[0]
				if out.Aborted == "sut-panic" {
					out.Aborted = ""
				}
			}
			for _, d := range sim.Trace {
				if d.C != 0 {
					out.Choices++
				}
			}
			w.cancelAll()
			out.Leaked = sim.Teardown(40, 10*time.Second)
			sim.Deactivate()
			w.cleanup()
			verifsimnet.Install(nil)
			time.Sleep(30 * time.Second)
		})
	}()
	return out
}

type abortRun string

// SortedKeys helps deterministic reporting.
func SortedKeys[V any](m map[string]V) []string {
	ks := make([]string, 0, len(m))
	for k := range m {
		ks = append(ks, k)
	}
	sort.Strings(ks)
	return ks
}

// StartWatchdog exits the process with status 2 when the controller makes no
// progress for limit of real time (hang inside uninstrumented code).
func StartWatchdog(limit time.Duration, what func() string) {
	go func() {
		last := Heartbeat.Load()
		lastChange := time.Now()
		for {
			time.Sleep(time.Second)
			cur := Heartbeat.Load()
			if cur != last {
				last, lastChange = cur, time.Now()
				continue
			}
			if time.Since(lastChange) > limit {
				buf := make([]byte, 1<<20)
				n := runtime.Stack(buf, true)
				fmt.Fprintf(os.Stderr, "WATCHDOG: no simulator progress for %v (%s)\n%s\n", limit, what(), buf[:n])
				os.Exit(2)
			}
		}
	}()
}
