package verifharness

import (
	"bytes"
	"compress/gzip"
	"fmt"
	"regexp"
	"strings"
	"testing"
	"time"

	"github.com/DataDog/zstd"
	"github.com/mimecast/dtail/internal/verifsim"
	"github.com/mimecast/dtail/internal/verifsimnet"
)

// C01 — dcat reproduces file content byte for byte (DESIGN.md §5 C01).

type C01Scenario struct {
	ScenarioBase
	Transport string              `json:"transport"` // serverless | ssh
	Plain     bool                `json:"plain"`
	Cfg       ServerCfg           `json:"cfg"`
	Compress  string              `json:"compress"` // "" | gz | gzip | zst
	Content   []byte              `json:"content"`
	Desc      string              `json:"desc"`
	Net       verifsimnet.Profile `json:"net"`
	// Stalls: the consumer of the client's stdout pauses (back-pressure reaches the
	// reader once the queues are full; pauses above 3 s let the periodic
	// truncation check fire before EOF)
	Stalls []StallSpec `json:"stalls,omitempty"`
}

// splitAtMLL is the reference model written from the statement: a newline is
// inserted after each run of mll consecutive non-newline bytes.
func splitAtMLL(content []byte, mll int) []byte {
	var out bytes.Buffer
	run := 0
	for _, b := range content {
		out.WriteByte(b)
		if b == '\n' {
			run = 0
			continue
		}
		run++
		if run == mll {
			out.WriteByte('\n')
			run = 0
		}
	}
	return out.Bytes()
}

// permittedOutput reports whether out equals content with a newline inserted
// at some subset of the positions that follow a run of k*mll consecutive
// non-newline bytes ("the only permitted difference"): the statement permits
// the inserted newlines, it does not demand them.
func permittedOutput(content, out []byte, mll int) bool {
	if bytes.Equal(out, splitAtMLL(content, mll)) {
		return true
	}
	type st struct{ i, j int }
	seen := map[st]bool{}
	var rec func(i, j, run int) bool
	rec = func(i, j, run int) bool {
		for {
			boundary := run > 0 && run%mll == 0
			if boundary {
				k := st{i, j}
				if seen[k] {
					return false
				}
				seen[k] = true
				// alternative 1: an inserted newline is present here
				if j < len(out) && out[j] == '\n' && rec2(rec, content, out, i, j+1) {
					return true
				}
				// alternative 2: none inserted; fall through
			}
			if i == len(content) {
				return j == len(out)
			}
			if j >= len(out) || content[i] != out[j] {
				return false
			}
			if content[i] == '\n' {
				run = 0
			} else {
				run++
			}
			i++
			j++
		}
	}
	return rec(0, 0, 0)
}

// rec2 continues matching after an inserted newline was consumed: the run
// length keeps counting towards the next multiple of mll, but the position
// itself must not offer the insertion again.
func rec2(rec func(i, j, run int) bool, content, out []byte, i, j int) bool {
	if i == len(content) {
		return j == len(out)
	}
	if j >= len(out) || content[i] != out[j] {
		return false
	}
	run := 1
	if content[i] == '\n' {
		run = 0
	}
	return rec(i+1, j+1, run)
}

func genLineLen(r *Rand, mll int) int {
	switch r.Intn(12) {
	case 0:
		return 0
	case 1:
		return 1
	case 2:
		return mll - 1
	case 3:
		return mll
	case 4:
		return mll + 1
	case 5:
		return 2 * mll
	case 6:
		return PickOf(r, 32767, 32768, 32769, 32700, 33000)
	case 7:
		return PickOf(r, 70000, 65536, 40000)
	default:
		return r.Intn(120)
	}
}

var hazardAtoms = [][]byte{{0xAC}, []byte("|"), []byte(";"), []byte("\r"), []byte("."), []byte(".syn close connection"),
	[]byte("¬"), []byte("€"), []byte("REMOTE|"), []byte("\x00"), []byte("\xff"), []byte(" "), []byte("\t"),
	[]byte(".ack close connection"), []byte("\x1b[31m"), []byte("SERVER|x|")}

func genBytes(r *Rand, n int, mode int) []byte {
	b := make([]byte, n)
	for i := range b {
		switch mode {
		case 0: // uniform bytes except newline
			c := byte(r.Intn(256))
			if c == '\n' {
				c = 'n'
			}
			b[i] = c
		case 1: // printable ascii
			b[i] = byte(32 + r.Intn(95))
		default: // safe: no protocol bytes
			b[i] = "abcdefghijklmnopqrstuvwxyz0123456789 _-"[r.Intn(39)]
		}
	}
	return b
}

func genC01Content(r *Rand, mll int, maxBytes int) ([]byte, string) {
	var out bytes.Buffer
	kind := r.Intn(10)
	desc := ""
	switch {
	case kind == 0:
		desc = "special"
		switch r.Intn(5) {
		case 0: // empty file
		case 1:
			out.WriteString(strings.Repeat("\n", r.Range(1, 20)))
		case 2:
			out.Write(genBytes(r, r.Range(1, 50), 2)) // single line, no final newline
		case 3:
			out.WriteString("\n")
		case 4:
			out.Write(genBytes(r, mll, 2))
		}
	case kind <= 2:
		desc = "uniform-bytes"
		n := r.Range(1, 3000)
		for i := 0; i < n; i++ {
			out.WriteByte(byte(r.Intn(256)))
		}
	case kind <= 4:
		desc = "hazards"
		nl := r.Range(1, 40)
		for i := 0; i < nl; i++ {
			na := r.Intn(5)
			for j := 0; j < na; j++ {
				if r.Bool(0.5) {
					out.Write(hazardAtoms[r.Intn(len(hazardAtoms))])
				} else {
					out.Write(genBytes(r, r.Intn(20), 1))
				}
			}
			if i < nl-1 || r.Bool(0.7) {
				out.WriteByte('\n')
			}
		}
	default:
		desc = "lines"
		mode := PickOf(r, 0, 1, 2, 2)
		nl := r.Range(1, 60)
		for i := 0; i < nl && out.Len() < maxBytes; i++ {
			out.Write(genBytes(r, genLineLen(r, mll), mode))
			if i < nl-1 || r.Bool(0.7) {
				out.WriteByte('\n')
			}
		}
	}
	b := out.Bytes()
	if len(b) > maxBytes {
		b = b[:maxBytes]
	}
	return b, desc
}

func genNetProfile(r *Rand) verifsimnet.Profile {
	p := verifsimnet.Profile{}
	p.LatencyMs = PickOf(r, 0, 0, 1, 5, 50)
	if r.Bool(0.3) {
		p.JitterMs = PickOf(r, 1, 3, 20)
	}
	p.ChunkMax = PickOf(r, 0, 0, 0, 1400, 1400, 16, 64, 4096)
	return p
}

func c01Gen(r *Rand, tier string, i int) Scenario {
	sc := &C01Scenario{}
	sc.Sched = GenSched(r)
	sc.Transport = PickOf(r, "serverless", "serverless", "ssh")
	sc.Plain = r.Bool(0.7)
	sc.Cfg.MLL = PickOf(r, 8, 64, 1024, 1024, 40000, 1024*1024)
	sc.Compress = PickOf(r, "", "", "", "gz", "gzip", "zst")
	max := 256 * 1024
	if tier == "quick" {
		max = 96 * 1024
	}
	// keep the number of framed messages (and so the run time) bounded
	if lim := sc.Cfg.MLL * 1500; lim < max {
		max = lim
	}
	sc.Content, sc.Desc = genC01Content(r, sc.Cfg.MLL, max)
	if r.Bool(0.08) {
		// total size exactly at (or one byte off) the buffer sizes of the pipeline
		// (bufio 4096, SSH packet 32768, io.Copy 32768, 65536), with and without
		// a final newline, the last line short or spanning the boundary
		if sc.Cfg.MLL < 1024 {
			sc.Cfg.MLL = PickOf(r, 1024, 40000) // keep the number of records bounded
		}
		size := PickOf(r, 4096, 8192, 32768, 65536) + PickOf(r, -1, 0, 0, 1)
		var out bytes.Buffer
		for out.Len() < size {
			l := PickOf(r, 0, 7, 63, 100, 1000, 4095, 4096)
			if out.Len()+l+1 > size {
				l = size - out.Len() - 1
				if l < 0 {
					break
				}
			}
			out.Write(genBytes(r, l, 2))
			out.WriteByte('\n')
		}
		b := out.Bytes()
		if len(b) > size {
			b = b[:size]
		}
		if r.Bool(0.5) && len(b) > 0 && b[len(b)-1] == '\n' {
			b[len(b)-1] = 'z' // unterminated last line ending exactly at the boundary
		}
		sc.Content, sc.Desc = b, "boundary-size"
	}
	if r.Bool(0.06) {
		// several long lines in a row (each longer than the 32 KiB pieces in which
		// the pipeline hands data on, shorter than MaxLineLength), all different:
		// whatever is left of one line is still on its way when the next is read
		sc.Cfg.MLL = PickOf(r, 40000, 1024*1024, 1024*1024)
		var out bytes.Buffer
		nl := r.Range(2, 6)
		for i := 0; i < nl && out.Len() < max; i++ {
			l := PickOf(r, 32767, 32768, 32769, 33000, 36000, 39990)
			if sc.Cfg.MLL > 40000 && r.Bool(0.5) {
				l = PickOf(r, 50000, 65535, 65536, 70000)
			}
			out.Write(genBytes(r, l, 2))
			if i < nl-1 || r.Bool(0.7) {
				out.WriteByte('\n')
			}
		}
		sc.Content, sc.Desc = out.Bytes(), "long-lines"
	}
	if r.Bool(0.12) {
		// many short lines (more than the two 100-slot queues hold) and a consumer
		// that pauses early on: the reader waits behind a full queue, reaches EOF
		// seconds after it opened the file
		var out bytes.Buffer
		nl := PickOf(r, 205, 230, 300, 450, 700)
		for i := 0; i < nl; i++ {
			out.Write(genBytes(r, r.Intn(24), 2))
			if i < nl-1 || r.Bool(0.6) {
				out.WriteByte('\n')
			}
		}
		sc.Content, sc.Desc = out.Bytes(), "manylines"
		sc.Stalls = []StallSpec{{Name: "consumer.single", Site: siteStdoutLock, Suffix: "/lock", From: PickOf(r, 0, 1, 5, 20), To: 0,
			DurMs: PickOf(r, 500, 3100, 3100, 6200, 9500)}}
		sc.Stalls[0].To = sc.Stalls[0].From + 1
	}
	if r.Bool(0.65) {
		// most runs avoid the two protocol-level known findings so that the
		// rest of the pipeline is checked without the counterfactual detour
		var n Scenario = sc
		if m, ok := c01TrigDelimiter(n); ok {
			n = m
		}
		if m, ok := c01TrigLeadingDot(n); ok {
			n = m
		}
		sc = n.(*C01Scenario)
		sc.Desc += "+sanitised"
	}
	if sc.Transport == "ssh" {
		sc.Net = genNetProfile(r)
		if sc.Net.ChunkMax > 0 && sc.Net.ChunkMax < 64 && len(sc.Content) > 20000 {
			sc.Net.ChunkMax = 1400
		}
	}
	return sc
}

func compress(kind string, b []byte) []byte {
	switch kind {
	case "gz", "gzip":
		var buf bytes.Buffer
		// contents above 2000 bytes whose length is divisible by 3 are written
		// as two concatenated gzip members (what `cat a.gz b.gz` produces; gzip
		// readers must continue with the next member)
		parts := [][]byte{b}
		if len(b) > 2000 && len(b)%3 == 0 {
			parts = [][]byte{b[:len(b)/2], b[len(b)/2:]}
		}
		for _, p := range parts {
			zw := gzip.NewWriter(&buf)
			zw.Write(p)
			zw.Close()
		}
		return buf.Bytes()
	case "zst":
		out, err := zstd.Compress(nil, b)
		must(err)
		return out
	}
	return b
}

// parseRemote splits a non-plain, no-colour stdout into records and returns
// the concatenated content of REMOTE records; other records are returned
// separately.
type remoteRec struct {
	Host, Perc, Count, ID string
	Content               []byte
}

// parseRecords parses no-colour client output. Every message is printed as
// the raw message text; REMOTE messages for lines end with the line's own
// newline (if it had one).
func parseRecords(out []byte) (recs []remoteRec, others [][]byte, err error) {
	rest := out
	for len(rest) > 0 {
		if !bytes.HasPrefix(rest, []byte("REMOTE|")) {
			// some other record: up to the next newline
			i := bytes.IndexByte(rest, '\n')
			if i < 0 {
				others = append(others, rest)
				break
			}
			others = append(others, rest[:i+1])
			rest = rest[i+1:]
			continue
		}
		// REMOTE|host|perc|count|id|content — content runs to the next "\n"
		// or, for a line without newline, to the next record start / end.
		parts := bytes.SplitN(rest, []byte("|"), 6)
		if len(parts) < 6 {
			return recs, others, fmt.Errorf("malformed REMOTE record: %q", trunc(string(rest), 80))
		}
		hdr := len(rest) - len(parts[5])
		body := parts[5]
		i := bytes.IndexByte(body, '\n')
		var content []byte
		if i < 0 {
			content = body
			rest = nil
		} else {
			content = body[:i+1]
			rest = rest[hdr+i+1:]
		}
		recs = append(recs, remoteRec{Host: string(parts[1]), Perc: string(parts[2]), Count: string(parts[3]),
			ID: string(parts[4]), Content: content})
	}
	return
}

func c01Run(t *testing.T, s Scenario, src verifsim.DecisionSource, keep bool) *RunResult {
	sc := s.(*C01Scenario)
	res := &RunResult{Info: map[string]any{}}
	name := "f.log"
	if sc.Compress != "" {
		name += "." + sc.Compress
	}
	var proc *ClientProc
	var stdout []byte
	opts := RunOpts{Src: src, KeepLabels: keep, MaxFake: 5 * time.Minute, Stalls: stallRules(sc.Stalls)}
	if sc.Transport == "ssh" {
		np := sc.Net
		opts.Net = &np
	}
	res.Outcome = RunSim(t, opts, func(w *World) {
		w.WriteFile(name, compress(sc.Compress, sc.Content))
		spec := ReadSpec{Kind: "cat", Transport: sc.Transport, Plain: sc.Plain, NoColor: true, Files: []string{name}}
		keyPath := ""
		if sc.Transport == "ssh" {
			spec.Hosts = []string{"srv1"}
			keyPath = w.StartSSHWorld(spec.Hosts, sc.Cfg, nil)
		} else {
			w.ConfigHook = sc.Cfg.apply
		}
		proc = w.MakeReadClient(spec, keyPath)
		w.RunClient(proc, sc.Transport == "ssh")
		stdout = w.Stdout(proc.StdoutCut)
	})
	res.NonTrivial = len(sc.Content) > 0
	if res.Panic != "" {
		res.Class, res.Message = "panic", res.Panic
		return res
	}
	if res.Aborted != "" {
		if res.Aborted == "timecap" {
			res.Class, res.Message = "no-termination", "client did not exit within the simulated time bound"
		}
		return res
	}
	if proc == nil || !proc.Exited {
		res.Class, res.Message = "no-exit", "client process did not exit"
		return res
	}
	if proc.Panic != "" {
		res.Class, res.Message = "client-panic", proc.Panic
		return res
	}
	if proc.Status != 0 {
		res.Class, res.Message = "exit-status", fmt.Sprintf("exit status %d", proc.Status)
		return res
	}
	expected := splitAtMLL(sc.Content, sc.Cfg.MLL)
	if sc.Plain {
		if !permittedOutput(sc.Content, stdout, sc.Cfg.MLL) {
			// known finding F-C01-longline-warning, discounted narrowly: exactly
			// the warning records are removed, everything else must still match
			if tolerated("line-longer-than-mll") {
				if stripped := longLineWarning.ReplaceAll(stdout, nil); !bytes.Equal(stripped, stdout) && permittedOutput(sc.Content, stripped, sc.Cfg.MLL) {
					res.Known = append(res.Known, "line-longer-than-mll")
					return res
				}
			}
			res.Class = "bytes-differ"
			res.Message = diffMsg(expected, stdout)
		}
		return res
	}
	recs, others, err := parseRecords(stdout)
	if err != nil {
		res.Class, res.Message = "bad-record", err.Error()
		return res
	}
	for _, o := range others {
		if !bytes.HasPrefix(o, []byte("CLIENT|")) && !bytes.HasPrefix(o, []byte("SERVER|")) {
			res.Class, res.Message = "stray-output", fmt.Sprintf("output that is not a REMOTE/CLIENT/SERVER record: %q", trunc(string(o), 120))
			return res
		}
	}
	var got bytes.Buffer
	for _, rc := range recs {
		got.Write(rc.Content)
	}
	g := got.Bytes()
	if n := len(sc.Content); n > 0 && sc.Content[n-1] != '\n' && len(g) > 0 && g[len(g)-1] == '\n' {
		// non-plain mode is outside the statement of C01 (which is about --plain);
		// there a labelled record is a whole output line (C07), so the record of an
		// unterminated last line may end in a newline the file does not have
		g = g[:len(g)-1]
	}
	if !permittedOutput(sc.Content, g, sc.Cfg.MLL) {
		res.Class = "bytes-differ"
		res.Message = diffMsg(expected, got.Bytes())
	}
	return res
}

// The warning record can land anywhere relative to the content (it travels on
// its own channel), also directly behind an unterminated last line.
var longLineWarning = regexp.MustCompile(`(CLIENT|SERVER)\|[^|\n]*\|WARN\|[^\n]*Long log line, splitting into multiple lines\n`)

func diffMsg(exp, got []byte) string {
	i := 0
	for i < len(exp) && i < len(got) && exp[i] == got[i] {
		i++
	}
	lo := i - 20
	if lo < 0 {
		lo = 0
	}
	he, hg := i+40, i+40
	if he > len(exp) {
		he = len(exp)
	}
	if hg > len(got) {
		hg = len(got)
	}
	return fmt.Sprintf("expected %d bytes, got %d; first difference at offset %d: expected ...%q got ...%q",
		len(exp), len(got), i, exp[lo:he], got[lo:hg])
}

func c01Shape(s Scenario) string {
	sc := s.(*C01Scenario)
	st := ""
	for _, sp := range sc.Stalls {
		st += fmt.Sprintf("/stall%d@%d", sp.DurMs, sp.From)
	}
	return fmt.Sprintf("%s/plain=%v/mll=%d/%s/%s/len%d%s", sc.Transport, sc.Plain, sc.Cfg.MLL, sc.Compress, sc.Desc, len(sc.Content), st)
}

func c01Sample(s Scenario) any {
	sc := s.(*C01Scenario)
	return map[string]any{"transport": sc.Transport, "plain": sc.Plain, "mll": sc.Cfg.MLL, "compress": sc.Compress,
		"content_kind": sc.Desc, "content_len": len(sc.Content), "content_head": trunc(fmt.Sprintf("%q", trunc(string(sc.Content), 60)), 120),
		"net": sc.Net, "sched": sc.Sched}
}

func c01Shrink(s Scenario) []Scenario {
	sc := s.(*C01Scenario)
	var out []Scenario
	mk := func(f func(n *C01Scenario)) {
		n := *sc
		n.Content = append([]byte(nil), sc.Content...)
		f(&n)
		out = append(out, &n)
	}
	if len(sc.Content) > 1 {
		mk(func(n *C01Scenario) { n.Content = n.Content[:len(n.Content)/2] })
		mk(func(n *C01Scenario) { n.Content = n.Content[len(n.Content)/2:] })
		mk(func(n *C01Scenario) { n.Content = n.Content[:len(n.Content)-1] })
		mk(func(n *C01Scenario) { n.Content = n.Content[1:] })
	}
	if sc.Compress != "" {
		mk(func(n *C01Scenario) { n.Compress = "" })
	}
	if len(sc.Stalls) > 0 {
		mk(func(n *C01Scenario) { n.Stalls = nil })
	}
	if sc.Transport == "ssh" {
		mk(func(n *C01Scenario) { n.Transport = "serverless" })
		mk(func(n *C01Scenario) { n.Net = verifsimnet.Profile{} })
	}
	if sc.Sched.Mode != "fifo" || sc.Sched.SwitchP != 0 {
		mk(func(n *C01Scenario) { n.Sched = SchedProfile{Mode: "fifo"} })
	}
	// simplify bytes to 'a' where possible (halves)
	for _, rng := range [][2]int{{0, len(sc.Content) / 2}, {len(sc.Content) / 2, len(sc.Content)}} {
		lo, hi := rng[0], rng[1]
		changed := false
		n := *sc
		n.Content = append([]byte(nil), sc.Content...)
		for i := lo; i < hi; i++ {
			if n.Content[i] != 'a' && n.Content[i] != '\n' {
				n.Content[i] = 'a'
				changed = true
			}
		}
		if changed {
			out = append(out, &n)
		}
	}
	return out
}

// Known-finding triggers (DESIGN.md §5 C01): each returns the scenario with
// the trigger removed, or false when the trigger is absent.
func c01TrigDelimiter(s Scenario) (Scenario, bool) {
	sc := s.(*C01Scenario)
	if !bytes.Contains(sc.Content, []byte{0xAC}) {
		return s, false
	}
	n := *sc
	n.Content = bytes.ReplaceAll(sc.Content, []byte{0xAC}, []byte{0xAD})
	return &n, true
}

func c01TrigLeadingDot(s Scenario) (Scenario, bool) {
	sc := s.(*C01Scenario)
	if !sc.Plain {
		return s, false
	}
	exp := splitAtMLL(sc.Content, sc.Cfg.MLL)
	has := false
	for _, l := range bytes.SplitAfter(exp, []byte("\n")) {
		if len(l) > 0 && l[0] == '.' {
			has = true
		}
	}
	if !has {
		return s, false
	}
	// replace every '.' that would start an output line
	n := *sc
	n.Content = append([]byte(nil), sc.Content...)
	run := 0
	for i, b := range n.Content {
		if b == '\n' {
			run = 0
			continue
		}
		if run == 0 && b == '.' {
			n.Content[i] = ','
		}
		run++
		if run == sc.Cfg.MLL {
			run = 0
		}
	}
	return &n, true
}

func c01TrigLongLineWarning(s Scenario) (Scenario, bool) {
	sc := s.(*C01Scenario)
	longest, run := 0, 0
	for _, b := range sc.Content {
		if b == '\n' {
			run = 0
			continue
		}
		run++
		if run > longest {
			longest = run
		}
	}
	if longest < sc.Cfg.MLL {
		return s, false
	}
	n := *sc
	n.Cfg.MLL = longest + 1
	return &n, true
}

func init() {
	Register(&Prop{
		ID:    "C01",
		Level: "exploration",
		Rule: "seeded generation of file contents (uniform bytes, line-structured text with lengths around 0/1/MLL/32 KiB/70 KB, protocol-hazard atoms, " +
			"degenerate files, files of 205-700 short lines read against a consumer that pauses 0.5-9.5 s) x MaxLineLength x plain/gzip/zstd x plain/non-plain x serverless/SSH x network chunking/latency x schedule profile; " +
			"non-trivial = non-empty content; distinct = distinct (scenario shape, schedule hash) pairs",
		Real: []string{"internal/clients (cat client, handlers, connectors)", "internal/server (SSH world)", "internal/server/handlers", "internal/io/fs",
			"internal/io/dlog + stdout logger", "golang.org/x/crypto/ssh client+server over simnet", "compress/gzip, DataDog/zstd"},
		Stub: []string{"cmd/dcat main (flag parsing, os.Exit) replaced by a replica", "TCP replaced by simnet", "io/signal.InterruptCh replaced by an idle channel"},
		Assumptions: []string{"instrumented copy of /repo (yield points, select rewrite) behaves like the original between yields",
			"go1.26.8 + testing/synctest fake clock; GOMAXPROCS=1"},
		New:    func() Scenario { return &C01Scenario{} },
		Gen:    c01Gen,
		Run:    c01Run,
		Shrink: c01Shrink,
		Shape:  c01Shape,
		Sample: c01Sample,
		Triggers: map[string]func(Scenario) (Scenario, bool){
			"content-has-0xAC":           c01TrigDelimiter,
			"plain-line-starts-with-dot": c01TrigLeadingDot,
			// line-longer-than-mll is discounted in the oracle (see c01Run), so that
			// the MaxLineLength split itself stays checked
			"line-longer-than-mll": func(s Scenario) (Scenario, bool) { return s, false },
		},
	})
}
