package verifharness

import (
	"bytes"
	"crypto/ecdsa"
	"crypto/elliptic"
	"crypto/rand"
	"crypto/rsa"
	"encoding/json"
	"fmt"
	"net"
	"os"
	"path/filepath"
	"strconv"
	"strings"
	"testing"
	"time"

	"github.com/mimecast/dtail/internal/config"
	"github.com/mimecast/dtail/internal/verifsim"
	"github.com/mimecast/dtail/internal/verifsimnet"

	gossh "golang.org/x/crypto/ssh"
)

// C09 — sessions are granted only to authorised keys and the fixed service
// users (DESIGN.md §5 C09).

type C09Line struct {
	Kind    string `json:"kind"` // key | comment | blank | garbage
	Key     int    `json:"key,omitempty"`
	Options string `json:"options,omitempty"`
	Comment string `json:"comment,omitempty"`
}

type C09File struct {
	User         string    `json:"user"`
	Lines        []C09Line `json:"lines"`
	CRLF         bool      `json:"crlf"`
	FinalNewline bool      `json:"final_newline"`
}

type C09Job struct {
	Kind      string   `json:"kind"` // schedule | continuous
	Name      string   `json:"name"`
	Enable    bool     `json:"enable"`
	AllowFrom []string `json:"allow_from"`
}

type C09Attempt struct {
	User     string   `json:"user"`
	Auth     string   `json:"auth"` // key | password
	Key      int      `json:"key,omitempty"`
	Password string   `json:"password,omitempty"`
	From     int      `json:"from"` // index of the client host the attempt comes from
	Commands []string `json:"commands,omitempty"`
	StartMs  int      `json:"start_ms"`
}

type C09Scenario struct {
	ScenarioBase
	Files    []C09File           `json:"files"`
	Jobs     []C09Job            `json:"jobs"`
	Zone     map[string][]string `json:"zone"`      // name -> addresses
	ZoneFail []string            `json:"zone_fail"` // names whose lookup fails
	Attempts []C09Attempt        `json:"attempts"`
	// second phase, same server process: some authorized-keys files are replaced
	// (every version carries the same modification time, as after mv/cp -p/rsync -t)
	// and then Attempts2 are made, judged by the files as they are then
	Files2    []C09File           `json:"files2,omitempty"`
	Attempts2 []C09Attempt        `json:"attempts2,omitempty"`
	Net       verifsimnet.Profile `json:"net"`
}

// key pool: 0..5 ed25519 (shared with world.go), 6..7 ecdsa, 8 rsa
var extraKeys []*UserKey

func poolKey(i int) *UserKey {
	if i < 6 {
		return Key(i)
	}
	for len(extraKeys) < 3 {
		var signer gossh.Signer
		var err error
		if len(extraKeys) < 2 {
			k, e := ecdsa.GenerateKey(elliptic.P256(), rand.Reader)
			must(e)
			signer, err = gossh.NewSignerFromKey(k)
		} else {
			k, e := rsa.GenerateKey(rand.Reader, 2048)
			must(e)
			signer, err = gossh.NewSignerFromKey(k)
		}
		must(err)
		extraKeys = append(extraKeys, &UserKey{PubLine: gossh.MarshalAuthorizedKey(signer.PublicKey()), Signer: signer})
	}
	return extraKeys[i-6]
}

const c09PoolSize = 9

var c09Users = []string{"alice", "bob", "carol"}

// client addresses; two of them extend another one as a string (10.0.1.1 /
// 10.0.1.11, 10.0.1.2 / 10.0.1.23) so that prefix instead of equality
// comparisons of addresses are exposed
var c09ClientIPs = []net.IP{net.IPv4(10, 0, 1, 1), net.IPv4(10, 0, 1, 2), net.IPv4(10, 0, 1, 11), net.IPv4(10, 0, 1, 23), net.IPv4(10, 0, 1, 3),
	net.ParseIP("fd00::5")} // an IPv6 client: its address prints as [fd00::5]:port

func clientIP(i int) net.IP { return c09ClientIPs[i%len(c09ClientIPs)] }

func c09Gen(r *Rand, tier string, i int) Scenario {
	sc := &C09Scenario{Zone: map[string][]string{}}
	sc.Sched = GenSched(r)
	nu := r.Range(1, 3)
	for u := 0; u < nu; u++ {
		f := C09File{User: c09Users[u], CRLF: r.Bool(0.2), FinalNewline: r.Bool(0.8)}
		nl := r.Intn(9)
		for l := 0; l < nl; l++ {
			switch r.Intn(8) {
			case 0:
				f.Lines = append(f.Lines, C09Line{Kind: "comment", Comment: PickOf(r, "# a comment", "#", "# ssh-ed25519 AAAA not a key", "#key of bob")})
				if r.Bool(0.4) {
					// a key revoked by commenting its line out: the full key text is in
					// the file, but not as an entry
					f.Lines = append(f.Lines, C09Line{Kind: "comment", Comment: PickOf(r, "#", "# ", "#revoked: ") + fmt.Sprintf("{{key:%d}}", r.Intn(c09PoolSize)) + PickOf(r, "", " old laptop")})
				}
				if r.Bool(0.15) {
					// a big file (shared account, generated file): more than 32 KiB / 64 KiB of
					// comment lines in front of the remaining keys
					for k := 0; k < PickOf(r, 40, 80); k++ {
						f.Lines = append(f.Lines, C09Line{Kind: "comment", Comment: "# " + strings.Repeat("managed-by-automation ", 40)})
					}
				}
			case 1:
				f.Lines = append(f.Lines, C09Line{Kind: "blank", Comment: PickOf(r, "", " ", "\t")})
			case 2:
				if r.Bool(0.3) {
					f.Lines = append(f.Lines, C09Line{Kind: "garbage", Comment: PickOf(r, "not a key line", "ssh-ed25519", "ssh-rsa AAAA!!!! x", "ssh-ed25519 QUJD bad")})
					break
				}
				fallthrough
			default:
				f.Lines = append(f.Lines, C09Line{Kind: "key", Key: r.Intn(c09PoolSize),
					Options: PickOf(r, "", "", "", "no-pty", "from=\"10.0.1.*\"", "command=\"echo hello world\",no-port-forwarding", "environment=\"A=b c\""),
					Comment: PickOf(r, "", "user@host", "a comment with spaces", "#hash", fmt.Sprintf("replaces {{key:%d}}", r.Intn(c09PoolSize)))})
			}
		}
		sc.Files = append(sc.Files, f)
	}
	// jobs
	nj := r.Intn(4)
	for j := 0; j < nj; j++ {
		job := C09Job{Kind: PickOf(r, "schedule", "continuous"), Name: fmt.Sprintf("job%d", j), Enable: r.Bool(0.5)}
		if job.Kind == "continuous" {
			job.Enable = false // an enabled continuous job would start a client inside the server
		}
		na := r.Intn(4)
		for a := 0; a < na; a++ {
			job.AllowFrom = append(job.AllowFrom, PickOf(r, "10.0.1.1", "10.0.1.2", "10.0.1.3", "10.0.1.1", "10.0.1.2", "10.0.1.11", "host-a", "host-b", "host-multi", "host-down", "nosuchname", "localhost", "fd00::5", "host-six"))
		}
		sc.Jobs = append(sc.Jobs, job)
	}
	sc.Zone["host-a"] = []string{"10.0.1.1"}
	sc.Zone["host-b"] = []string{"10.0.1.2"}
	sc.Zone["host-multi"] = []string{"10.9.9.9", "10.0.1.3", "10.0.1.2"}
	sc.Zone["localhost"] = []string{"127.0.0.1"}
	sc.Zone["host-six"] = []string{"fd00::5"}
	sc.ZoneFail = []string{"host-down"}
	// attempts
	na := r.Range(2, 10)
	for a := 0; a < na; a++ {
		at := C09Attempt{From: r.Intn(len(c09ClientIPs)), StartMs: PickOf(r, 0, 0, 0, 1, 10, 100)}
		switch r.Intn(10) {
		case 0, 1, 2, 3, 4:
			at.User = c09Users[r.Intn(nu)]
			if r.Bool(0.15) {
				at.User = PickOf(r, "mallory", "root", "alice2", "")
			}
			at.Auth = "key"
			at.Key = r.Intn(c09PoolSize)
		case 5:
			at.User = config.HealthUser
			at.Auth = "password"
			at.Password = PickOf(r, config.HealthUser, config.HealthUser, "wrong", "", "dtail-health", config.HealthUser+" ")
			at.Commands = []string{PickOf(r, "health", "cat: /etc/passwd regex:noop ", "cat: SECRET regex:noop ", "tail: SECRET regex:noop ", "map select count($line) from STATS",
				"grep: SECRET regex:default x", ".ack close connection", "garbage")}
			if r.Bool(0.5) {
				at.Commands = append(at.Commands, PickOf(r, "health", "cat: SECRET regex:noop "))
			}
			if r.Bool(0.25) {
				// a login name that is not the service user's but close to it (other case,
				// padding, a prefix): an ordinary user, who cannot log in with a password
				at.User = c09NearName(r, at.User)
				at.Password = PickOf(r, config.HealthUser, config.HealthUser, at.User)
			}
		case 6, 7:
			at.User = PickOf(r, config.ScheduleUser, config.ContinuousUser)
			at.Auth = "password"
			at.Password = PickOf(r, "job0", "job1", "job2", "job3", "nojob", "", "JOB0")
			if r.Bool(0.2) {
				at.User = c09NearName(r, at.User)
			}
		case 8:
			at.User = c09Users[r.Intn(nu)]
			at.Auth = "password"
			at.Password = PickOf(r, "secret", "", config.HealthUser, "job0")
		default:
			at.User = PickOf(r, config.HealthUser, config.ScheduleUser)
			at.Auth = "key"
			at.Key = r.Intn(c09PoolSize)
		}
		sc.Attempts = append(sc.Attempts, at)
	}
	if r.Bool(0.3) && len(sc.Files) > 0 {
		// replace one or two users' files: drop a key, add another, or swap all
		for _, f := range sc.Files {
			if !r.Bool(0.6) {
				continue
			}
			g := C09File{User: f.User, CRLF: f.CRLF, FinalNewline: f.FinalNewline}
			for _, l := range f.Lines {
				if l.Kind == "key" && r.Bool(0.5) {
					continue // key removed
				}
				g.Lines = append(g.Lines, l)
			}
			if r.Bool(0.7) {
				g.Lines = append(g.Lines, C09Line{Kind: "key", Key: r.Intn(c09PoolSize)})
			}
			sc.Files2 = append(sc.Files2, g)
		}
		n2 := r.Range(1, 6)
		for a := 0; a < n2; a++ {
			sc.Attempts2 = append(sc.Attempts2, C09Attempt{User: c09Users[r.Intn(nu)], Auth: "key", Key: r.Intn(c09PoolSize), From: r.Intn(len(c09ClientIPs)), StartMs: PickOf(r, 0, 0, 1, 10)})
		}
	}
	sc.Net = verifsimnet.Profile{LatencyMs: PickOf(r, 0, 1)}
	return sc
}

// c09NearName returns a login name that differs from a service user's name only in
// case, padding or length: the service users are fixed names, nothing near them is one.
func c09NearName(r *Rand, name string) string {
	switch r.Intn(6) {
	case 0:
		return strings.ToLower(name)
	case 1:
		return name[:1] + strings.ToLower(name[1:])
	case 2:
		return strings.ToLower(name[:1]) + name[1:]
	case 3:
		return name + " "
	case 4:
		return name[:len(name)-1]
	default:
		return name + "2"
	}
}

// c09KeyText expands {{key:N}} into the text (type and base64) of pool key N.
func c09KeyText(s string) string {
	for {
		i := strings.Index(s, "{{key:")
		if i < 0 {
			return s
		}
		j := strings.Index(s[i:], "}}")
		if j < 0 {
			return s
		}
		n, _ := strconv.Atoi(s[i+6 : i+j])
		s = s[:i] + strings.TrimSpace(string(poolKey(n).PubLine)) + s[i+j+2:]
	}
}

func (f *C09File) render() []byte {
	nl := "\n"
	if f.CRLF {
		nl = "\r\n"
	}
	var b bytes.Buffer
	for i, l := range f.Lines {
		switch l.Kind {
		case "key":
			line := strings.TrimSuffix(string(poolKey(l.Key).PubLine), "\n")
			if l.Options != "" {
				line = l.Options + " " + line
			}
			if l.Comment != "" {
				line += " " + c09KeyText(l.Comment)
			}
			b.WriteString(line)
		default:
			b.WriteString(c09KeyText(l.Comment))
		}
		if i < len(f.Lines)-1 || f.FinalNewline {
			b.WriteString(nl)
		}
	}
	return b.Bytes()
}

// expected is the decision table written from the statement.
func (sc *C09Scenario) expected(at C09Attempt) (grant bool, why string) {
	return sc.expectedIn(at, sc.Files)
}

// filesAfter is the set of authorized-keys files after the replacement.
func (sc *C09Scenario) filesAfter() []C09File {
	out := append([]C09File(nil), sc.Files2...)
	for _, f := range sc.Files {
		found := false
		for _, g := range sc.Files2 {
			if g.User == f.User {
				found = true
			}
		}
		if !found {
			out = append(out, f)
		}
	}
	return out
}

func (sc *C09Scenario) expectedIn(at C09Attempt, files []C09File) (grant bool, why string) {
	switch at.User {
	case config.HealthUser:
		if at.Auth == "password" && at.Password == config.HealthUser {
			return true, "health user with the health password"
		}
		return false, "health user without the health password"
	case config.ScheduleUser, config.ContinuousUser:
		if at.Auth != "password" {
			return false, "background user without password"
		}
		kind := "schedule"
		if at.User == config.ContinuousUser {
			kind = "continuous"
		}
		src := clientIP(at.From).String()
		for _, j := range sc.Jobs {
			if j.Kind != kind || j.Name != at.Password {
				continue
			}
			for _, a := range j.AllowFrom {
				for _, ip := range sc.resolve(a) {
					if ip == src {
						return true, fmt.Sprintf("job %s allows %s", j.Name, src)
					}
				}
			}
		}
		return false, "no job with that name allows the source address"
	}
	if at.Auth != "key" {
		return false, "ordinary users cannot log in with a password"
	}
	for _, f := range files {
		if f.User != at.User {
			continue
		}
		for _, l := range f.Lines {
			if l.Kind == "key" && l.Key == at.Key {
				return true, "key is listed in the user's authorized keys"
			}
		}
	}
	return false, "key is not listed for that user"
}

func (sc *C09Scenario) malformedFile(user string) bool {
	for _, f := range append(append([]C09File(nil), sc.Files...), sc.Files2...) {
		if f.User == user {
			for _, l := range f.Lines {
				if l.Kind == "garbage" {
					return true
				}
			}
		}
	}
	return false
}

func (sc *C09Scenario) resolve(name string) []string {
	for _, f := range sc.ZoneFail {
		if f == name {
			return nil
		}
	}
	if ips, ok := sc.Zone[name]; ok {
		return ips
	}
	if net.ParseIP(name) != nil {
		return []string{name}
	}
	return nil
}

const c09Secret = "TOPSECRET-c09-file-content-7731"

func c09Run(t *testing.T, s Scenario, src verifsim.DecisionSource, keep bool) *RunResult {
	sc := s.(*C09Scenario)
	res := &RunResult{Info: map[string]any{}}
	np := sc.Net
	opts := RunOpts{Src: src, KeepLabels: keep, MaxFake: 5 * time.Minute, Net: &np}
	type outcome struct {
		granted bool
		err     string
		msgs    []string
	}
	outs := make([]outcome, len(sc.Attempts)+len(sc.Attempts2))
	res.Outcome = RunSim(t, opts, func(w *World) {
		secret := w.WriteFile("secret.log", []byte(c09Secret+"\n"))
		w.StartSSHWorld([]string{"srv1"}, ServerCfg{MaxConns: 50}, func() {
			var sched, cont []map[string]any
			for _, j := range sc.Jobs {
				m := map[string]any{"Name": j.Name, "Enable": j.Enable, "AllowFrom": j.AllowFrom, "Files": "/nonexistent", "Query": "select count($line)", "Outfile": "/tmp/nonexistent-out"}
				if j.Kind == "schedule" {
					sched = append(sched, m)
				} else {
					cont = append(cont, m)
				}
			}
			b, _ := json.Marshal(sched)
			config.Server.Schedule = nil
			must(json.Unmarshal(b, &config.Server.Schedule))
			b, _ = json.Marshal(cont)
			config.Server.Continuous = nil
			must(json.Unmarshal(b, &config.Server.Continuous))
		})
		// authorized_keys files (StartSSHWorld installed one for simuser; irrelevant here)
		fixedTime := time.Date(2024, 5, 1, 12, 0, 0, 0, time.UTC)
		writeKeys := func(f C09File) {
			p := filepath.Join(w.Dir, "cache", f.User+".authorized_keys")
			must(os.WriteFile(p, f.render(), 0600))
			must(os.Chtimes(p, fixedTime, fixedTime))
		}
		for _, f := range sc.Files {
			writeKeys(f)
		}
		for name, ips := range sc.Zone {
			var l []net.IP
			for _, ip := range ips {
				l = append(l, net.ParseIP(ip))
			}
			w.Net.Zone[name] = l
		}
		for _, name := range sc.ZoneFail {
			w.Net.ZoneFail[name] = true
		}
		var nodes []*verifsim.Node
		for i := 0; i < len(c09ClientIPs); i++ {
			h := fmt.Sprintf("client%d", i)
			w.Net.AddHost(h, clientIP(i))
			nodes = append(nodes, w.Sim.NewNode(h, "client", h))
		}
		done := make(chan struct{}, len(sc.Attempts)+len(sc.Attempts2))
		runAttempts := func(base int, attempts []C09Attempt) {
			for ai, at := range attempts {
				ai, at := base+ai, at
				w.Sim.GoOn(nodes[at.From], "harness/attempt", func() {
					defer func() { done <- struct{}{} }()
					w.Sleep(time.Duration(at.StartMs) * time.Millisecond)
					var auth []gossh.AuthMethod
					if at.Auth == "key" {
						auth = []gossh.AuthMethod{gossh.PublicKeys(poolKey(at.Key).Signer)}
					} else {
						auth = []gossh.AuthMethod{gossh.Password(at.Password)}
					}
					rs := w.RawDial(fmt.Sprintf("a%d", ai), "srv1", at.User, auth, 10*time.Second)
					if rs.DialErr != nil {
						outs[ai].err = rs.DialErr.Error()
						return
					}
					outs[ai].granted = true
					if len(at.Commands) > 0 {
						if err := rs.Shell(); err == nil {
							for _, c := range at.Commands {
								rs.Command(strings.ReplaceAll(c, "SECRET", secret))
								w.Sleep(50 * time.Millisecond)
							}
							w.Sleep(500 * time.Millisecond)
							outs[ai].msgs = rs.Messages()
						}
					}
					rs.Close()
				})
			}
			for range attempts {
				verifsim.Yield("harness/waitattempts")
				<-done
			}
		}
		runAttempts(0, sc.Attempts)
		if len(sc.Attempts2) > 0 {
			for _, f := range sc.Files2 {
				writeKeys(f)
				w.Sim.Fault("authorized-keys.replaced")
			}
			runAttempts(len(sc.Attempts), sc.Attempts2)
		}
	})
	res.NonTrivial = len(sc.Attempts) >= 2
	if res.Panic != "" {
		res.Class, res.Message = "server-panic", trunc(res.Panic, 1200)
		return res
	}
	if res.Aborted != "" {
		if res.Aborted == "timecap" {
			res.Class, res.Message = "no-termination", "attempts did not finish within the simulated time bound"
		}
		return res
	}
	all := append(append([]C09Attempt(nil), sc.Attempts...), sc.Attempts2...)
	for ai, at := range all {
		want, why := sc.expected(at)
		if ai >= len(sc.Attempts) {
			want, why = sc.expectedIn(at, sc.filesAfter())
			why += " (after the authorized-keys files were replaced)"
		}
		got := outs[ai]
		if got.granted && !want {
			res.Class = "session-granted-wrongly"
			res.Message = fmt.Sprintf("attempt %d (user %q, %s, from %s) was granted a session although: %s", ai, at.User, describeAuth(at), clientIP(at.From), why)
			return res
		}
		if !got.granted && want && sc.malformedFile(at.User) {
			// a file with lines that are neither keys, comments nor blank is not
			// "well-formed": the statement does not say what happens to its keys
			continue
		}
		if !got.granted && want {
			res.Class = "session-refused-wrongly"
			res.Message = fmt.Sprintf("attempt %d (user %q, %s, from %s) was refused (%s) although: %s", ai, at.User, describeAuth(at), clientIP(at.From), trunc(got.err, 120), why)
			return res
		}
		if got.granted && at.User == config.HealthUser {
			for _, m := range got.msgs {
				if strings.Contains(m, c09Secret) || strings.Contains(m, "root:") {
					res.Class, res.Message = "health-session-read-file", fmt.Sprintf("a health session received file content: %q", trunc(m, 120))
					return res
				}
				if strings.HasPrefix(m, "REMOTE|") || strings.HasPrefix(m, "AGGREGATE|") {
					res.Class, res.Message = "health-session-ran-command", fmt.Sprintf("a health session received the output of another command: %q", trunc(m, 120))
					return res
				}
			}
		}
	}
	return res
}

func describeAuth(at C09Attempt) string {
	if at.Auth == "key" {
		return fmt.Sprintf("key #%d", at.Key)
	}
	return fmt.Sprintf("password %q", at.Password)
}

func c09Shape(s Scenario) string {
	sc := s.(*C09Scenario)
	var fs, as []string
	for _, f := range sc.Files {
		var ls []string
		for _, l := range f.Lines {
			ls = append(ls, fmt.Sprintf("%s%d%s", l.Kind[:1], l.Key, l.Options))
		}
		fs = append(fs, fmt.Sprintf("%s[%s]crlf%v,nl%v", f.User, strings.Join(ls, ","), f.CRLF, f.FinalNewline))
	}
	for _, a := range sc.Attempts {
		as = append(as, fmt.Sprintf("%s/%s/%d/%s/%d", a.User, a.Auth, a.Key, a.Password, a.From))
	}
	js, _ := json.Marshal(sc.Jobs)
	return strings.Join(fs, ";") + "|" + string(js) + "|" + strings.Join(as, ";")
}

func c09Sample(s Scenario) any {
	sc := s.(*C09Scenario)
	var fs []any
	for _, f := range sc.Files {
		fs = append(fs, map[string]any{"user": f.User, "file": trunc(string(f.render()), 400)})
	}
	return map[string]any{"authorized_keys": fs, "jobs": sc.Jobs, "attempts": sc.Attempts, "zone": sc.Zone, "zone_fail": sc.ZoneFail}
}

func c09Shrink(s Scenario) []Scenario {
	sc := s.(*C09Scenario)
	var out []Scenario
	cl := func() *C09Scenario {
		n := *sc
		n.Files = nil
		for _, f := range sc.Files {
			f.Lines = append([]C09Line(nil), f.Lines...)
			n.Files = append(n.Files, f)
		}
		n.Attempts = append([]C09Attempt(nil), sc.Attempts...)
		n.Jobs = append([]C09Job(nil), sc.Jobs...)
		return &n
	}
	for i := range sc.Attempts {
		if len(sc.Attempts) > 1 {
			n := cl()
			n.Attempts = append(n.Attempts[:i], n.Attempts[i+1:]...)
			out = append(out, n)
		}
	}
	for fi, f := range sc.Files {
		for li := range f.Lines {
			n := cl()
			n.Files[fi].Lines = append(n.Files[fi].Lines[:li], n.Files[fi].Lines[li+1:]...)
			out = append(out, n)
		}
		if f.CRLF {
			n := cl()
			n.Files[fi].CRLF = false
			out = append(out, n)
		}
	}
	for j := range sc.Jobs {
		n := cl()
		n.Jobs = append(n.Jobs[:j], n.Jobs[j+1:]...)
		out = append(out, n)
	}
	return out
}

func init() {
	Register(&Prop{
		ID:    "C09",
		Level: "exploration",
		Rule: "seeded generation of server configurations and concurrent login attempts over real SSH handshakes: per-user authorized_keys files with 0-8 lines (ed25519/ecdsa/rsa keys " +
			"with options incl. quoted spaces, comments, blank and garbage lines anywhere, CRLF, with and without final newline), schedule/continuous jobs with names and " +
			"AllowFrom lists (addresses and names resolved by the simulated resolver: single, multiple answers, failing), 2-10 attempts from three client hosts: listed / unlisted / " +
			"other users' keys, unknown users, password logins for ordinary users, health user with right and wrong passwords followed by arbitrary commands, background users " +
			"with job names from allowed and disallowed addresses, keys for service users; oracle: a decision table written from the statement; a granted health session must " +
			"never receive file content or another command's output. non-trivial = at least two attempts; distinct = (configuration + attempts, schedule hash)",
		Real: []string{"internal/server (Callback, backgroundCanSSH, handleRequests handler choice)", "internal/ssh/server (PublicKeyCallback, verifyAuthorizedKeys, authorizedKeysFile)",
			"internal/server/handlers (health handler)", "internal/user/server", "x/crypto/ssh client and server over simnet"},
		Stub:        []string{"clients are harness-driven x/crypto/ssh connections", "DNS replaced by the simulated resolver", "enabled continuous jobs are not configured (they would start clients inside the server)"},
		Assumptions: []string{"x/crypto/ssh's ParseAuthorizedKey defines what a well-formed key line is (key options are not enforced by dtail and therefore not by the oracle)"},
		New:         func() Scenario { return &C09Scenario{} },
		Gen:         c09Gen,
		Run:         c09Run,
		Shrink:      c09Shrink,
		Shape:       c09Shape,
		Sample:      c09Sample,
		Triggers:    map[string]func(Scenario) (Scenario, bool){},
	})
}
