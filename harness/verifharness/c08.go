package verifharness

import (
	"fmt"
	"os"
	"path/filepath"
	"regexp"
	"sort"
	"strings"
	"testing"
	"time"

	"github.com/mimecast/dtail/internal/config"
	"github.com/mimecast/dtail/internal/verifsim"
	"github.com/mimecast/dtail/internal/verifsimnet"

	gossh "golang.org/x/crypto/ssh"
)

// C08 — users read only files their permission rules allow (DESIGN.md §5
// C08). Configuration-dominated: generated rule lists x directory layouts x
// requests, executed as concurrent real sessions of several users.

type C08Node struct {
	Path   string `json:"path"`             // relative to the tree root
	Kind   string `json:"kind"`             // file | dir | symlink
	Target string `json:"target,omitempty"` // symlink target (relative to the link's directory, or absolute with ROOT prefix)
}

type C08Request struct {
	User string `json:"user"`
	Path string `json:"path"` // absolute with ROOT prefix, or relative to the server's cwd with CWD prefix
	// Retarget: the request is for a private symbolic link (Path, ROOT/sw/cur<i>.lnk)
	// that points to First while the session follows it (tail), and is re-pointed
	// to Then before the same session asks to cat it: the second request must be
	// judged by where the link points then
	First string `json:"first,omitempty"`
	Then  string `json:"then,omitempty"`
}

type C08Scenario struct {
	ScenarioBase
	Default  []string            `json:"default"`
	Users    map[string][]string `json:"users"` // user -> ordered rules (ROOT stands for the tree root)
	Tree     []C08Node           `json:"tree"`
	Requests []C08Request        `json:"requests"`
	Net      verifsimnet.Profile `json:"net"`
}

var c08Users = []string{"u1", "u2", "u3", "u4"}

var c08RuleTemplates = []string{
	"^ROOT/.*", "^ROOT/pub/.*", "^ROOT/pub/[^/]+\\.log$", "!^ROOT/pub/secret.*", "!^ROOT/priv/.*", "^ROOT/priv/ok\\.log$", "readfiles:^ROOT/pub/.*", "readfiles:!^ROOT/pub/a\\.log$",
	"^ROOT/pub/[[:alpha:]]+\\.log$", "!^ROOT/pub/[[:alpha:]]*[[:digit:]]+\\.log$", "^ROOT/d[[:digit:]]/.*", "!secret", "\\.log$", "!\\.txt$", "writefiles:^ROOT/.*", "other:!^ROOT/pub/.*",
	"^/.*", "!^/.*", "^ROOT/pub/../priv/.*", "^ROOT/(pub|d1)/", "!^ROOT/d1/x:y\\.log$", "^ROOT/d1/x:y\\.log$", "readfiles:^ROOT/d2/[[:lower:]]+$", "!^ROOT/.*/deny/.*",
}

func c08Gen(r *Rand, tier string, i int) Scenario {
	sc := &C08Scenario{Users: map[string][]string{}}
	sc.Sched = GenSched(r)
	genRules := func() []string {
		n := r.Range(1, 5)
		var rs []string
		for k := 0; k < n; k++ {
			rs = append(rs, c08RuleTemplates[r.Intn(len(c08RuleTemplates))])
		}
		return rs
	}
	sc.Default = genRules()
	nu := r.Range(2, 4)
	for u := 0; u < nu; u++ {
		if r.Bool(0.8) {
			sc.Users[c08Users[u]] = genRules()
			if r.Bool(0.12) {
				// a user listed with an EMPTY rule list: nothing is allowed (this is
				// not the same as a user who is not listed and gets the default rules)
				sc.Users[c08Users[u]] = []string{}
			}
		}
	}
	// tree
	sc.Tree = []C08Node{
		{Path: "pub", Kind: "dir"}, {Path: "priv", Kind: "dir"}, {Path: "d1", Kind: "dir"}, {Path: "d2", Kind: "dir"}, {Path: "pub/deny", Kind: "dir"},
		{Path: "pub/a.log", Kind: "file"}, {Path: "pub/b.log", Kind: "file"}, {Path: "pub/c7.log", Kind: "file"}, {Path: "pub/secret.log", Kind: "file"}, {Path: "pub/notes.txt", Kind: "file"},
		{Path: "pub/deny/z.log", Kind: "file"}, {Path: "priv/ok.log", Kind: "file"}, {Path: "priv/key.log", Kind: "file"}, {Path: "d1/x:y.log", Kind: "file"}, {Path: "d1/m.log", Kind: "file"},
		{Path: "d2/lower", Kind: "file"}, {Path: "d2/UPPER", Kind: "file"},
	}
	links := []C08Node{
		{Path: "pub/link-priv-key.log", Kind: "symlink", Target: "../priv/key.log"},
		{Path: "pub/link-a.log", Kind: "symlink", Target: "a.log"},
		{Path: "pub/link-dir", Kind: "symlink", Target: "../priv"},
		{Path: "pub/link-link.log", Kind: "symlink", Target: "link-priv-key.log"},
		{Path: "pub/dangling.log", Kind: "symlink", Target: "nowhere.log"},
		{Path: "priv/link-pub-a.log", Kind: "symlink", Target: "ROOT/pub/a.log"},
		{Path: "d1/loop.log", Kind: "symlink", Target: "loop.log"},
		{Path: "d1/up", Kind: "symlink", Target: ".."},
		{Path: "d2/abs-secret", Kind: "symlink", Target: "ROOT/pub/secret.log"},
		{Path: "pub/chain1.log", Kind: "symlink", Target: "chain2.log"},
		{Path: "pub/chain2.log", Kind: "symlink", Target: "../d1/m.log"},
	}
	for _, l := range links {
		if r.Bool(0.7) {
			sc.Tree = append(sc.Tree, l)
		}
	}
	reqs := []string{"ROOT/pub/a.log", "ROOT/pub/*.log", "ROOT/pub/*", "ROOT/priv/*.log", "ROOT/priv/key.log", "ROOT/pub/link-priv-key.log", "ROOT/pub/link-dir/key.log",
		"ROOT/pub/link-dir/*.log", "ROOT/pub/../priv/key.log", "ROOT/pub/link-link.log", "ROOT/pub/dangling.log", "ROOT/d1/loop.log", "ROOT/d1/up/priv/ok.log", "ROOT/d1/x:y.log",
		"ROOT/d1/*", "ROOT/d2/*", "ROOT/d2/abs-secret", "ROOT/pub", "ROOT/pub/deny/z.log", "ROOT/*/*.log", "CWD/data/tree/pub/a.log", "CWD/data/tree/priv/../pub/secret.log",
		"CWD/data/tree/pub/chain1.log", "ROOT/pub/c7.log", "ROOT/priv/link-pub-a.log", "ROOT/pub/notes.txt", "ROOT/nonexistent", "ROOT/pub/secret.log", "ROOT//pub///b.log", "ROOT/pub/./b.log"}
	nr := r.Range(2, 10)
	for k := 0; k < nr; k++ {
		sc.Requests = append(sc.Requests, C08Request{User: c08Users[r.Intn(nu)], Path: reqs[r.Intn(len(reqs))]})
	}
	if r.Bool(0.25) {
		targets := []string{"pub/a.log", "priv/key.log", "pub/secret.log", "d1/m.log", "priv/ok.log", "d2/lower"}
		n := r.Range(1, 2)
		for k := 0; k < n; k++ {
			sc.Requests = append(sc.Requests, C08Request{User: c08Users[r.Intn(nu)], Path: fmt.Sprintf("ROOT/sw/cur%d.lnk", len(sc.Requests)),
				First: targets[r.Intn(len(targets))], Then: targets[r.Intn(len(targets))]})
		}
	}
	sc.Net = verifsimnet.Profile{LatencyMs: PickOf(r, 0, 1)}
	return sc
}

// --- independent permission evaluator --------------------------------------

// resolvePath walks p component by component, following symbolic links
// (own implementation; does not use filepath.EvalSymlinks).
func resolvePath(p string, depth int) (string, bool) {
	if depth > 40 {
		return "", false
	}
	if !filepath.IsAbs(p) {
		return "", false
	}
	parts := strings.Split(p, "/")
	cur := "/"
	for i, c := range parts {
		if c == "" || c == "." {
			continue
		}
		if c == ".." {
			cur = filepath.Dir(cur)
			continue
		}
		next := filepath.Join(cur, c)
		fi, err := os.Lstat(next)
		if err != nil {
			return "", false
		}
		if fi.Mode()&os.ModeSymlink != 0 {
			t, err := os.Readlink(next)
			if err != nil {
				return "", false
			}
			if !filepath.IsAbs(t) {
				t = filepath.Join(cur, t)
			}
			rest := strings.Join(parts[i+1:], "/")
			return resolvePath(t+"/"+rest, depth+1)
		}
		cur = next
	}
	return cur, true
}

func ruleAllows(rules []string, resolved string) bool {
	allowed := false
	for _, rule := range rules {
		body := rule
		if i := strings.Index(rule, ":"); i > 0 {
			// an explicit permission type is a plain lower-case word in front of the first ':'
			typ := rule[:i]
			isWord := true
			for _, ch := range typ {
				if ch < 'a' || ch > 'z' {
					isWord = false
				}
			}
			if isWord {
				if typ != "readfiles" {
					continue // rule of another permission type
				}
				body = rule[i+1:]
			}
		}
		neg := strings.HasPrefix(body, "!")
		if neg {
			body = body[1:]
		}
		re, err := regexp.Compile(body)
		if err != nil {
			return false
		}
		if re.MatchString(resolved) {
			allowed = !neg
		}
	}
	return allowed
}

// ---------------------------------------------------------------------------

func c08Tag(path string) string { return "CONTENT-OF<" + path + ">" }

func c08Run(t *testing.T, s Scenario, src verifsim.DecisionSource, keep bool) *RunResult {
	sc := s.(*C08Scenario)
	res := &RunResult{Info: map[string]any{}}
	np := sc.Net
	opts := RunOpts{Src: src, KeepLabels: keep, MaxFake: 5 * time.Minute, Net: &np}
	type outcome struct {
		err     string
		msgs    []string
		allowed map[string]int // resolved file -> number of requested paths resolving to it (each is served)
		denied  bool
		ended   bool
	}
	outs := make([]*outcome, len(sc.Requests))
	var root string
	res.Outcome = RunSim(t, opts, func(w *World) {
		root = w.Data("tree")
		sub := func(s string) string {
			return strings.ReplaceAll(strings.ReplaceAll(s, "ROOT", root), "CWD/", "")
		}
		must(os.MkdirAll(root, 0755))
		for _, n := range sc.Tree {
			p := filepath.Join(root, n.Path)
			switch n.Kind {
			case "dir":
				must(os.MkdirAll(p, 0755))
			case "file":
				must(os.MkdirAll(filepath.Dir(p), 0755))
				must(os.WriteFile(p, []byte(c08Tag(n.Path)+" line 1\n"+c08Tag(n.Path)+" line 2\n"), 0644))
			case "symlink":
				must(os.MkdirAll(filepath.Dir(p), 0755))
				must(os.Symlink(strings.ReplaceAll(n.Target, "ROOT", root), p))
			}
		}
		rulesOf := func(user string) []string {
			rs, ok := sc.Users[user]
			if !ok {
				rs = sc.Default
			}
			var out []string
			for _, r := range rs {
				out = append(out, strings.ReplaceAll(r, "ROOT", root))
			}
			return out
		}
		w.StartSSHWorld([]string{"srv1"}, ServerCfg{MaxConns: 50, MaxCats: 8}, func() {
			config.Server.Permissions.Default = rulesOf("\x00default")
			config.Server.Permissions.Users = map[string][]string{}
			for u := range sc.Users {
				config.Server.Permissions.Users[u] = rulesOf(u)
			}
		})
		for i, u := range c08Users {
			must(os.WriteFile(filepath.Join(w.Dir, "cache", u+".authorized_keys"), Key(i+1).PubLine, 0600))
		}
		// expectations (evaluated before the sessions run; the tree is static)
		for ri, rq := range sc.Requests {
			o := &outcome{allowed: map[string]int{}}
			outs[ri] = o
			p := sub(rq.Path)
			if !filepath.IsAbs(p) {
				p = filepath.Join(w.Dir, p)
			}
			if rq.First != "" {
				// judged by the final target; the link itself is created (pointing to
				// First) just below and re-pointed by the session
				must(os.MkdirAll(filepath.Dir(p), 0755))
				os.Remove(p)
				must(os.Symlink(filepath.Join(root, rq.Then), p))
			}
			matches, _ := filepath.Glob(filepath.Clean(p))
			for _, m := range matches {
				resolved, ok := resolvePath(m, 0)
				if !ok {
					continue
				}
				fi, err := os.Lstat(resolved)
				if err != nil || !fi.Mode().IsRegular() {
					continue
				}
				if ruleAllows(rulesOf(rq.User), resolved) {
					rel, _ := filepath.Rel(root, resolved)
					o.allowed[rel]++
				}
			}
		}
		for _, rq := range sc.Requests {
			if rq.First != "" {
				os.Remove(sub(rq.Path))
				must(os.Symlink(filepath.Join(root, rq.First), sub(rq.Path)))
			}
		}
		done := make(chan struct{}, len(sc.Requests))
		for ri, rq := range sc.Requests {
			ri, rq := ri, rq
			w.Sim.GoOn(w.ClientNode, "harness/request", func() {
				defer func() { done <- struct{}{} }()
				o := outs[ri]
				ui := 0
				for i, u := range c08Users {
					if u == rq.User {
						ui = i
					}
				}
				rs := w.RawDial(fmt.Sprintf("r%d", ri), "srv1", rq.User, []gossh.AuthMethod{gossh.PublicKeys(Key(ui + 1).Signer)}, 10*time.Second)
				if rs.DialErr != nil {
					o.err = "dial: " + rs.DialErr.Error()
					return
				}
				if err := rs.Shell(); err != nil {
					o.err = "shell: " + err.Error()
					return
				}
				if rq.First != "" {
					rs.Command(CatCommand("tail", sub(rq.Path), ""))
					w.Sleep(200 * time.Millisecond)
					os.Remove(sub(rq.Path))
					must(os.Symlink(filepath.Join(root, rq.Then), sub(rq.Path)))
					w.Sim.Fault("symlink.retargeted")
					w.Sleep(50 * time.Millisecond)
					rs.Command(CatCommand("cat", sub(rq.Path), ""))
					w.Sleep(2 * time.Second)
					o.ended = true
					o.msgs = rs.Messages()
					rs.Close()
					return
				}
				rs.Command(CatCommand("cat", sub(rq.Path), ""))
				for i := 0; i < 3000; i++ {
					ms := rs.Messages()
					fin := false
					for _, m := range ms {
						if strings.HasPrefix(m, ".syn close connection") {
							fin = true
						}
					}
					if fin || rs.Ended() {
						o.ended = true
						break
					}
					w.Sleep(10 * time.Millisecond)
				}
				o.msgs = rs.Messages()
				rs.AckClose()
				w.Sleep(10 * time.Millisecond)
				rs.Close()
			})
		}
		for range sc.Requests {
			verifsim.Yield("harness/waitrequests")
			<-done
		}
	})
	res.NonTrivial = len(sc.Requests) >= 2
	if res.Panic != "" {
		res.Class, res.Message = "server-panic", trunc(res.Panic, 1200)
		return res
	}
	if res.Aborted != "" {
		if res.Aborted == "timecap" {
			res.Class, res.Message = "no-termination", "requests did not finish within the simulated time bound"
		}
		return res
	}
	for ri, rq := range sc.Requests {
		o := outs[ri]
		if o == nil {
			continue
		}
		if rs, listed := sc.Users[rq.User]; listed && len(rs) == 0 && o.err != "" {
			continue // a user without any rule may be turned away at the door
		}
		if o.err != "" {
			res.Class, res.Message = "session-failed", fmt.Sprintf("request %d (%s %s): %s", ri, rq.User, rq.Path, o.err)
			return res
		}
		got := map[string]int{}
		for _, m := range o.msgs {
			if i := strings.Index(m, "CONTENT-OF<"); i >= 0 {
				j := strings.Index(m[i:], ">")
				if j > 0 {
					got[m[i+len("CONTENT-OF<"):i+j]]++
				}
			}
		}
		var leaked []string
		for f := range got {
			if o.allowed[f] == 0 {
				leaked = append(leaked, f)
			}
		}
		sort.Strings(leaked)
		if len(leaked) > 0 {
			res.Class = "content-disclosed"
			res.Message = fmt.Sprintf("user %s requested %s and received content of %v, which the user's rules %v do not allow (allowed by the reference evaluator: %v)",
				rq.User, rq.Path, leaked, rulesFor(sc, rq.User), keysOf(o.allowed))
			return res
		}
		for f, n := range o.allowed {
			if got[f] != 2*n {
				res.Class = "allowed-file-not-served"
				res.Message = fmt.Sprintf("user %s requested %s: file %s is a regular file allowed by the rules %v but %d of its %d lines were delivered",
					rq.User, rq.Path, f, rulesFor(sc, rq.User), got[f], 2*n)
				return res
			}
		}
	}
	return res
}

func rulesFor(sc *C08Scenario, user string) []string {
	if rs, ok := sc.Users[user]; ok {
		return rs
	}
	return sc.Default
}

func keysOf(m map[string]int) []string {
	var ks []string
	for k := range m {
		ks = append(ks, k)
	}
	sort.Strings(ks)
	return ks
}

func c08Shape(s Scenario) string {
	sc := s.(*C08Scenario)
	var rq []string
	for _, r := range sc.Requests {
		rq = append(rq, r.User+":"+r.Path)
	}
	var us []string
	for _, u := range c08Users {
		if rs, ok := sc.Users[u]; ok {
			us = append(us, u+"="+strings.Join(rs, ","))
		}
	}
	var links []string
	for _, n := range sc.Tree {
		if n.Kind == "symlink" {
			links = append(links, n.Path)
		}
	}
	return strings.Join(sc.Default, ",") + "|" + strings.Join(us, ";") + "|" + strings.Join(links, ",") + "|" + strings.Join(rq, ";")
}

func c08Sample(s Scenario) any {
	sc := s.(*C08Scenario)
	var links []string
	for _, n := range sc.Tree {
		if n.Kind == "symlink" {
			links = append(links, n.Path+" -> "+n.Target)
		}
	}
	return map[string]any{"default_rules": sc.Default, "user_rules": sc.Users, "symlinks": links, "requests": sc.Requests}
}

func c08Shrink(s Scenario) []Scenario {
	sc := s.(*C08Scenario)
	var out []Scenario
	cl := func() *C08Scenario {
		n := *sc
		n.Requests = append([]C08Request(nil), sc.Requests...)
		n.Default = append([]string(nil), sc.Default...)
		n.Users = map[string][]string{}
		for u, rs := range sc.Users {
			n.Users[u] = append([]string(nil), rs...)
		}
		n.Tree = append([]C08Node(nil), sc.Tree...)
		return &n
	}
	for i := range sc.Requests {
		if len(sc.Requests) > 1 {
			n := cl()
			n.Requests = append(n.Requests[:i], n.Requests[i+1:]...)
			out = append(out, n)
		}
	}
	for u, rs := range sc.Users {
		for i := range rs {
			if len(rs) > 1 {
				n := cl()
				n.Users[u] = append(n.Users[u][:i], n.Users[u][i+1:]...)
				out = append(out, n)
			}
		}
	}
	for i := range sc.Default {
		if len(sc.Default) > 1 {
			n := cl()
			n.Default = append(n.Default[:i], n.Default[i+1:]...)
			out = append(out, n)
		}
	}
	for i, nd := range sc.Tree {
		if nd.Kind == "symlink" {
			n := cl()
			n.Tree = append(n.Tree[:i], n.Tree[i+1:]...)
			out = append(out, n)
		}
	}
	return out
}

func init() {
	Register(&Prop{
		ID:    "C08",
		Level: "exploration",
		Rule: "seeded generation of worlds: ordered rule lists (allow and '!' deny regexes, with and without 'readfiles:' prefix, rules of other permission types, POSIX classes " +
			"containing ':', a file name containing ':', anchored and unanchored patterns; per-user and default), a directory tree with regular files, directories and symlinks " +
			"(to files, directories, other symlinks, dangling, looping, absolute, leaving the allowed subtree), 2-10 concurrent requests of 2-4 users (absolute and relative paths, " +
			"'..', doubled slashes, globs over files and directories). Oracle: an independent evaluator (own symlink walker, regular-file test, last matching rule wins, default " +
			"deny): content of a file not allowed never appears in the session, every allowed file is served completely. non-trivial = at least two requests; " +
			"distinct = (rules + layout + requests, schedule hash). The deciding dimension is the configuration space; concurrency of users is secondary.",
		Real: []string{"internal/user/server (HasFilePermission, iteratePaths)", "internal/server/handlers (readGlob, readFileIfPermissions)", "internal/config (ServerUserPermissions)",
			"internal/server + x/crypto/ssh over simnet (one session per request, concurrent users)"},
		Stub: []string{"FIFOs and device files are not placed in the tree (opening them would block the simulated server's reader in a system call the simulator cannot see)", "OS ACL check is the non-linuxacl build's no-op"},
		Assumptions: []string{"a rule's permission type is a lower-case word in front of the first ':' (readfiles: ...); anything else in front of a ':' belongs to the regular expression",
			"the file served for a request is what the lexically cleaned request path resolves to"},
		New:      func() Scenario { return &C08Scenario{} },
		Gen:      c08Gen,
		Run:      c08Run,
		Shrink:   c08Shrink,
		Shape:    c08Shape,
		Sample:   c08Sample,
		Triggers: map[string]func(Scenario) (Scenario, bool){},
	})
}
