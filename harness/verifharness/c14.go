package verifharness

import (
	"encoding/json"
	"fmt"
	"net"
	"strings"
	"testing"
	"time"

	"github.com/mimecast/dtail/internal/config"
	"github.com/mimecast/dtail/internal/io/dlog"
	"github.com/mimecast/dtail/internal/verifsim"
	"github.com/mimecast/dtail/internal/verifsimnet"

	gossh "golang.org/x/crypto/ssh"
)

// C14 — connection slots are bounded by MaxConnections and always given back
// (DESIGN.md §5 C14). Histories and bursts of connections of every kind,
// checked against a counting reference model at quiescent points.

type C14Op struct {
	Kind    string `json:"kind"`
	StartMs int    `json:"start_ms"` // offset inside its phase
	HoldMs  int    `json:"hold_ms"`  // how long the connection is kept before it ends
	Abrupt  bool   `json:"abrupt"`   // end by TCP reset instead of an orderly close
}

type C14Scenario struct {
	ScenarioBase
	MaxConns int                 `json:"max_conns"`
	Phases   [][]C14Op           `json:"phases"`
	Net      verifsimnet.Profile `json:"net"`
}

var c14Kinds = []string{"shell", "shell", "shell", "health", "badkey", "badpw", "nochannel", "noshell", "twoshells", "twochannels",
	"unknownreq", "resetkex", "resetauth", "resetmid", "bgschedule", "bgcontinuous", "directtcpip", "ptyreq", "reqburst", "shellreqs", "reuseport"}

func c14Gen(r *Rand, tier string, i int) Scenario {
	sc := &C14Scenario{}
	sc.Sched = GenSched(r)
	sc.MaxConns = PickOf(r, 1, 2, 2, 3, 10)
	np := r.Range(1, 3)
	for p := 0; p < np; p++ {
		n := PickOf(r, 1, 2, 3, 4, 6, 8)
		burst := r.Bool(0.5)
		var ops []C14Op
		for k := 0; k < n; k++ {
			op := C14Op{Kind: c14Kinds[r.Intn(len(c14Kinds))], HoldMs: PickOf(r, 200, 250, 300, 400), Abrupt: r.Bool(0.3)}
			if r.Bool(0.06) {
				op.HoldMs = PickOf(r, 11000, 16000) // a connection that stays (idle) for a long time
			}
			if !burst {
				op.StartMs = PickOf(r, 0, 1, 5, 20, 40)
			}
			ops = append(ops, op)
		}
		sc.Phases = append(sc.Phases, ops)
	}
	sc.Net = verifsimnet.Profile{LatencyMs: PickOf(r, 0, 1, 2)}
	return sc
}

// expectation per op kind: does the connection authenticate (and so occupy a
// slot while it is held)?
func c14Authenticates(kind string) bool {
	switch kind {
	case "badkey", "badpw", "resetkex":
		return false
	}
	return true
}

type c14OpState struct {
	rs          *RawSession
	established bool // SSH handshake succeeded
	refused     bool // the server refused/closed it (limit)
	ended       bool
	note        string
}

func c14Run(t *testing.T, s Scenario, src verifsim.DecisionSource, keep bool) *RunResult {
	sc := s.(*C14Scenario)
	res := &RunResult{Info: map[string]any{}}
	np := sc.Net
	var srv *ServerProc
	violation, vmsg := "", ""
	fail := func(cls, msg string) {
		if violation == "" {
			violation, vmsg = cls, msg
		}
	}
	stepCtr := 0
	opts := RunOpts{Src: src, KeepLabels: keep, MaxFake: 10 * time.Minute, Net: &np,
		OnStep: func(w *World, site string) string {
			stepCtr++
			if srv == nil || srv.Srv == nil || stepCtr%7 != 0 {
				return ""
			}
			if c := c14Reported(); c < 0 {
				fail("counter-negative", fmt.Sprintf("the server reports %d open connections", c))
				return violation
			}
			return ""
		}}
	probes := map[string]int{}
	res.Outcome = RunSim(t, opts, func(w *World) {
		w.WriteFile("small.log", []byte("one\ntwo\nthree\n"))
		w.StartSSHWorld([]string{"srv1"}, ServerCfg{MaxConns: sc.MaxConns, MaxCats: 4}, func() {
			// one (disabled) job of each kind whose allow list covers the client:
			// background-job users can log in with the job name as password
			job := `[{"Name":"bgjob","Enable":false,"AllowFrom":["10.0.1.1"],"Files":"/nonexistent","Query":"select count($line)","Outfile":"/nonexistent/out"}]`
			config.Server.Schedule = nil
			must(json.Unmarshal([]byte(job), &config.Server.Schedule))
			config.Server.Continuous = nil
			must(json.Unmarshal([]byte(job), &config.Server.Continuous))
		})
		srv = w.Servers[0]
		good := []gossh.AuthMethod{gossh.PublicKeys(Key(0).Signer)}
		bad := []gossh.AuthMethod{gossh.PublicKeys(Key(5).Signer)}
		catCmd := CatCommand("cat", w.Data("small.log"), "")

		runOp := func(op C14Op, st *c14OpState, done chan struct{}) {
			defer func() { st.ended = true; done <- struct{}{} }()
			w.Sleep(time.Duration(op.StartMs) * time.Millisecond)
			hold := func() { w.Sleep(time.Duration(op.HoldMs) * time.Millisecond) }
			end := func(rs *RawSession) {
				if rs == nil {
					return
				}
				if op.Abrupt && rs.Conn != nil {
					rs.Conn.Reset()
				} else {
					rs.Close()
				}
			}
			switch op.Kind {
			case "badkey":
				rs := w.RawDial("badkey", "srv1", simUser, bad, 5*time.Second)
				st.rs = rs
				if rs.DialErr == nil {
					st.established = true
					st.note = "authentication with an unlisted key succeeded"
					hold()
					end(rs)
				}
				return
			case "badpw":
				rs := w.RawDial("badpw", "srv1", config.HealthUser, []gossh.AuthMethod{gossh.Password("wrong")}, 5*time.Second)
				st.rs = rs
				if rs.DialErr == nil {
					st.established = true
					st.note = "authentication with a wrong password succeeded"
					hold()
					end(rs)
				}
				return
			case "resetkex":
				conn, err := w.Net.Dial(fmt.Sprintf("srv1:%d", config.DefaultSSHPort), time.Second)
				if err != nil {
					st.refused = true
					return
				}
				// send the version line, then die in the middle of the key exchange
				conn.Write([]byte("SSH-2.0-verifsim\r\n"))
				w.Sleep(time.Duration(op.HoldMs%7) * time.Millisecond)
				conn.Reset()
				return
			}
			if op.Kind == "reuseport" {
				// a client whose connection is reset and which connects again at once
				// from the same source port; the connection that counts is the second
				if rs0 := w.RawDial("reuseport-first", "srv1", simUser, good, 5*time.Second); rs0.DialErr == nil {
					if rs0.Shell() == nil {
						rs0.Command(catCmd)
					}
					w.Sleep(time.Duration(op.HoldMs%3) * time.Millisecond)
					port := 0
					if a, ok := rs0.Conn.LocalAddr().(*net.TCPAddr); ok {
						port = a.Port
					}
					rs0.Conn.Reset()
					w.Net.NextLocalPort = port
				}
			}
			var rs *RawSession
			if op.Kind == "health" {
				rs = w.RawDial("health", "srv1", config.HealthUser, []gossh.AuthMethod{gossh.Password(config.HealthUser)}, 5*time.Second)
			} else if op.Kind == "bgschedule" || op.Kind == "bgcontinuous" {
				u := config.ScheduleUser
				if op.Kind == "bgcontinuous" {
					u = config.ContinuousUser
				}
				rs = w.RawDial(op.Kind, "srv1", u, []gossh.AuthMethod{gossh.Password("bgjob")}, 5*time.Second)
			} else {
				rs = w.RawDial(op.Kind, "srv1", simUser, good, 5*time.Second)
			}
			st.rs = rs
			if rs.DialErr != nil {
				st.refused = true
				st.note = rs.DialErr.Error()
				if strings.HasPrefix(op.Kind, "bg") {
					res.Info["bg_refused"] = st.note
				}
				return
			}
			st.established = true
			if strings.HasPrefix(op.Kind, "bg") {
				probes["conn.background-user-established"]++
			}
			switch op.Kind {
			case "resetauth":
				rs.Conn.Reset()
				return
			case "nochannel":
			case "noshell":
				if sess, err := rs.Client.NewSession(); err == nil {
					_ = sess
				}
			case "directtcpip":
				// what `ssh -L`/`-W` opens: a channel type the server does not serve
				if ch, reqs, err := rs.Client.OpenChannel("direct-tcpip", gossh.Marshal(struct {
					Host  string
					Port  uint32
					OHost string
					OPort uint32
				}{"127.0.0.1", 22, "127.0.0.1", 4321})); err == nil {
					go gossh.DiscardRequests(reqs)
					_ = ch
				}
			case "ptyreq":
				// what a plain `ssh host` sends first: pty-req and env before shell
				if sess, err := rs.Client.NewSession(); err == nil {
					sess.Setenv("LANG", "C")
					sess.RequestPty("xterm", 24, 80, gossh.TerminalModes{})
				}
			case "shell", "health", "resetmid", "bgschedule", "bgcontinuous", "reuseport":
				if err := rs.Shell(); err != nil {
					st.note = "shell: " + err.Error()
					break
				}
				if op.Kind == "health" {
					rs.Command("health")
				} else {
					rs.Command(catCmd)
				}
				if op.Kind == "resetmid" {
					w.Sleep(time.Duration(op.HoldMs%5) * time.Millisecond)
					rs.Conn.Reset()
					return
				}
			case "twoshells":
				if err := rs.Shell(); err == nil {
					rs.Sess.SendRequest("shell", true, nil)
					rs.Command(catCmd)
				}
			case "twochannels":
				if err := rs.Shell(); err == nil {
					rs.Command(catCmd)
					if s2, err := rs.Client.NewSession(); err == nil {
						if in, err := s2.StdinPipe(); err == nil {
							s2.StdoutPipe()
							if s2.Shell() == nil {
								in.Write([]byte("protocol 4.1 base64 aGVhbHRo;")) // "health": unknown for a user session, harmless
							}
						}
					}
				}
			case "reqburst":
				// a client that does not wait for replies: a burst of requests the
				// server does not serve (what a resized terminal or a port scanner sends)
				if sess, err := rs.Client.NewSession(); err == nil {
					n := 17 + op.HoldMs%40
					for q := 0; q < n; q++ {
						sess.SendRequest(PickStr(q, "window-change", "env", "signal"), false, gossh.Marshal(struct{ A, B, C, D uint32 }{80, 24, 0, 0}))
					}
				}
			case "shellreqs":
				// a served session whose terminal is resized now and then
				if err := rs.Shell(); err == nil {
					rs.Command(catCmd)
					n := 17 + op.HoldMs%40
					for q := 0; q < n; q++ {
						rs.Sess.SendRequest("window-change", false, gossh.Marshal(struct{ A, B, C, D uint32 }{80, 24, 0, 0}))
						if q%8 == 7 {
							w.Sleep(2 * time.Millisecond)
						}
					}
				}
			case "unknownreq":
				if sess, err := rs.Client.NewSession(); err == nil {
					sess.SendRequest("exec", true, gossh.Marshal(struct{ Value string }{"id"}))
				}
			}
			hold()
			end(rs)
		}

		probeLogin := func(name string) (ok bool, detail string) {
			rs := w.RawDial(name, "srv1", simUser, good, 5*time.Second)
			if rs.DialErr != nil {
				return false, rs.DialErr.Error()
			}
			err := rs.Shell()
			if err == nil {
				rs.Command(catCmd)
				for i := 0; i < 200 && countLines(rs) < 3 && !rs.Ended(); i++ {
					w.Sleep(time.Millisecond)
				}
				if countLines(rs) < 3 {
					err = fmt.Errorf("no output received (%d lines)", countLines(rs))
				}
			}
			rs.Close()
			w.Sleep(50 * time.Millisecond)
			if err != nil {
				return false, err.Error()
			}
			return true, ""
		}

		serverOpen := func() int {
			n := 0
			for _, c := range w.Net.Conns() {
				if strings.HasSuffix(c.Label(), ":s2c") && c.Open() {
					n++
				}
			}
			return n
		}

		for pi, ops := range sc.Phases {
			if violation != "" {
				break
			}
			states := make([]*c14OpState, len(ops))
			done := make(chan struct{}, len(ops))
			for k, op := range ops {
				k, op := k, op
				states[k] = &c14OpState{}
				w.Sim.GoOn(w.ClientNode, "harness/op", func() { runOp(op, states[k], done) })
			}
			// check A: everything that will establish has done so; nothing has ended yet
			w.Sleep(120 * time.Millisecond)
			held := 0
			for k, st := range states {
				if st.note != "" && (ops[k].Kind == "badkey" || ops[k].Kind == "badpw") {
					fail("auth-bypass", st.note)
				}
				if st.established && !st.ended && st.rs != nil && st.rs.Conn != nil && st.rs.Conn.Open() {
					held++
				}
			}
			open := serverOpen()
			counter := c14Reported()
			res.Info[fmt.Sprintf("phase%d", pi)] = fmt.Sprintf("held=%d open=%d counter=%d", held, open, counter)
			if held > sc.MaxConns {
				probes["burst-over-limit"]++
				fail("limit-exceeded", fmt.Sprintf("phase %d: %d connections are being served at once, MaxConnections is %d", pi, held, sc.MaxConns))
			}
			if counter != held {
				fail("counter-differs", fmt.Sprintf("phase %d (connections held open): the server reports %d open connections, %d are actually open", pi, counter, held))
			}
			if held < sc.MaxConns {
				probes["probe-login-mid"]++
				if ok, d := probeLogin("probeA"); !ok {
					fail("slot-not-available", fmt.Sprintf("phase %d: %d of %d slots in use but a well-formed login was refused: %s", pi, held, sc.MaxConns, d))
				}
			} else {
				probes["limit-reached"]++
			}
			long := false
			for _, op := range ops {
				if op.HoldMs > 10000 {
					long = true
				}
			}
			if long && violation == "" {
				// check A2: ten seconds later the long-lived connections are still
				// open and must still be counted
				w.Sleep(10500 * time.Millisecond)
				held2 := 0
				for _, st := range states {
					if st.established && !st.ended && st.rs != nil && st.rs.Conn != nil && st.rs.Conn.Open() {
						held2++
					}
				}
				if c := c14Reported(); c != held2 {
					fail("counter-differs", fmt.Sprintf("phase %d (connections open for more than 10 s): the server reports %d open connections, %d are actually open", pi, c, held2))
				}
			}
			for range ops {
				verifsim.Yield("harness/waitops")
				<-done
			}
			// check B: all ended, everything settled
			w.Sleep(6 * time.Second)
			open = serverOpen()
			counter = c14Reported()
			if open != 0 {
				fail("connection-not-closed", fmt.Sprintf("phase %d: all clients are gone but the server still holds %d connections open", pi, open))
			}
			if counter != 0 {
				fail("counter-differs", fmt.Sprintf("phase %d (all connections ended): the server reports %d open connections, 0 are actually open", pi, counter))
			}
			if ok, d := probeLogin("probeB"); !ok {
				fail("slot-not-available", fmt.Sprintf("phase %d: no connection is open but a well-formed login was refused: %s", pi, d))
			}
		}
	})
	for k, v := range probes {
		res.Probes = addProbe(res.Probes, k, v)
	}
	nops := 0
	for _, p := range sc.Phases {
		nops += len(p)
	}
	res.NonTrivial = nops >= 2
	if res.Panic != "" {
		res.Class, res.Message = "panic", res.Panic
		return res
	}
	if violation != "" {
		res.Class, res.Message = violation, vmsg
		res.Aborted = ""
		return res
	}
	if res.Aborted == "timecap" {
		res.Class, res.Message = "no-termination", "history did not finish within the simulated time bound"
	}
	return res
}

func c14Shape(s Scenario) string {
	sc := s.(*C14Scenario)
	var ps []string
	for _, p := range sc.Phases {
		var os []string
		for _, o := range p {
			a := ""
			if o.Abrupt {
				a = "!"
			}
			os = append(os, fmt.Sprintf("%s%s@%d", o.Kind, a, o.StartMs))
		}
		ps = append(ps, strings.Join(os, ","))
	}
	return fmt.Sprintf("max%d/%s", sc.MaxConns, strings.Join(ps, " | "))
}

func c14Sample(s Scenario) any {
	sc := s.(*C14Scenario)
	return map[string]any{"max_connections": sc.MaxConns, "phases": sc.Phases, "net": sc.Net, "sched": sc.Sched}
}

func c14Shrink(s Scenario) []Scenario {
	sc := s.(*C14Scenario)
	var out []Scenario
	cl := func() *C14Scenario {
		n := *sc
		n.Phases = nil
		for _, p := range sc.Phases {
			n.Phases = append(n.Phases, append([]C14Op(nil), p...))
		}
		return &n
	}
	for pi := range sc.Phases {
		if len(sc.Phases) > 1 {
			n := cl()
			n.Phases = append(n.Phases[:pi], n.Phases[pi+1:]...)
			out = append(out, n)
		}
		for k := range sc.Phases[pi] {
			if len(sc.Phases[pi]) > 1 {
				n := cl()
				n.Phases[pi] = append(n.Phases[pi][:k], n.Phases[pi][k+1:]...)
				out = append(out, n)
			}
			if sc.Phases[pi][k].Abrupt {
				n := cl()
				n.Phases[pi][k].Abrupt = false
				out = append(out, n)
			}
			if sc.Phases[pi][k].Kind != "shell" {
				n := cl()
				n.Phases[pi][k].Kind = "shell"
				out = append(out, n)
			}
		}
	}
	n := cl()
	n.Sched = SchedProfile{Mode: "fifo"}
	out = append(out, n)
	return out
}

func init() {
	Register(&Prop{
		ID:    "C14",
		Level: "exploration",
		Rule: "seeded histories of 1-3 phases of 1-8 connection attempts (bursts or staggered) against one dserver with MaxConnections 1/2/3/10: key login + shell, health login, " +
			"bad key, bad password, login without channel, channel without shell, two shell requests, two channels, unknown request type, reset during key exchange / after " +
			"authentication / mid-session, orderly or abrupt end; reference model: connections actually open (simnet ground truth); checked while the connections are held " +
			"(served <= MaxConnections, reported == open, a free slot admits a probe login) and after they ended (reported == 0, probe login succeeds), counter never negative " +
			"at every 7th step; non-trivial = at least two attempts; distinct = (history, schedule hash)",
		Real:        []string{"internal/server (listenerLoop, handleConnection, handleChannel, handleRequests, stats)", "internal/server/handlers", "x/crypto/ssh server side over simnet"},
		Stub:        []string{"clients are harness-driven x/crypto/ssh connections (needed to produce malformed and abrupt behaviours)", "TCP replaced by simnet"},
		Assumptions: []string{"the server's own count is the currentConnections value of the last STATS record it logged (written at every change and every 10 s), captured by the simulated dserver's logger"},
		New:         func() Scenario { return &C14Scenario{} },
		Gen:         c14Gen,
		Run:         c14Run,
		Shrink:      c14Shrink,
		Shape:       c14Shape,
		Sample:      c14Sample,
		Triggers:    map[string]func(Scenario) (Scenario, bool){},
	})
}

// PickStr picks names[i mod len].
func PickStr(i int, names ...string) string { return names[i%len(names)] }

// c14Reported is the number of open connections the server reported last.
func c14Reported() int {
	n, _ := dlog.VerifReportedConnections()
	return n
}
