package verifharness

import (
	"bytes"
	"encoding/base64"
	"fmt"
	"path/filepath"
	"regexp"
	"strings"
	"testing"
	"time"

	"github.com/mimecast/dtail/internal/verifsim"
	"github.com/mimecast/dtail/internal/verifsimnet"

	gossh "golang.org/x/crypto/ssh"
)

// C10 — no client-supplied bytes can crash the server (DESIGN.md §5 C10).
// Multi-session scenario: a victim session spans the attack.

// C10Payload: with Env the bytes are the decoded command, wrapped into a
// correct "protocol 4.1 base64 ...;" envelope at run time (after FILE has been
// replaced by the attack file's path); otherwise they are written as they are.
type C10Payload struct {
	Env bool   `json:"env"`
	B   []byte `json:"b"`
}

type C10Attack struct {
	Payloads []C10Payload `json:"payloads"` // written to the session, in order
	PauseMs  int          `json:"pause_ms"`
	ChunkMax int          `json:"chunk_max"` // writes are split into chunks of at most this many bytes (0: whole)
}

type C10Scenario struct {
	ScenarioBase
	Attackers []C10Attack         `json:"attackers"`
	Net       verifsimnet.Profile `json:"net"`
}

func envelope(decoded string) C10Payload { return C10Payload{Env: true, B: []byte(decoded)} }

func rawPayload(b []byte) C10Payload { return C10Payload{B: b} }

func (p C10Payload) bytes(file string) []byte {
	b := bytes.ReplaceAll(p.B, []byte("FILE"), []byte(file))
	b = bytes.ReplaceAll(b, []byte("DIRN"), []byte(filepath.Dir(file)))
	b = bytes.ReplaceAll(b, []byte("DIRB"), []byte(filepath.Base(filepath.Dir(file))))
	if p.Env {
		return []byte("protocol 4.1 base64 " + base64.StdEncoding.EncodeToString(b) + ";")
	}
	return b
}

var c10Words = []string{"cat", "grep", "tail", "map", ".ack", "health", "timeout", "frobnicate", "", "CAT", "cat:", ":", "cat::", ".syn"}
var c10Opts = []string{"", "", ":quiet=true", ":plain=true:quiet=true", ":k", ":k=", ":=v", ":=", ":base64%!!!", ":x=base64%", ":x=base64%QUJD", ":max=99999999999999999999",
	":before=-5:after=x", ":max=1", ":before=3:after=3:max=2", ":serverless=true", ":before=70000", ":before=4611686018427387904", ":before=2000000:max=1", ":max=-1", ":after=9223372036854775807", ":quiet", ":::", ":a=b=c"}
var c10Args = []string{"", "x", "FILE", "FILE", "/nonexistent", "/", "/etc", "regex:noop", "regex:default", "regex:invert x", "regex:default [", "regex:default (((", "regex:bogus y",
	"regex", "regex:", "regex:default,invert,noop z", "DIRN//*.log", "DIRN/./att*", "DIRN/../DIRB/*.log", "DIRN//attack.log", "DIRN/x/../*", "DIRN/*.log", "DIRN/*/../*.log", "close", "connection", "close connection", "5", "-1", "*", "../../..", "\x00", "é", "%s%s%s%n", "regex:default \\", "regex:invert (?P<"}
var c10Queries = []string{"", "select", "select x", "select count(x) from", "select `", "select ``", "select ` x", "select count($line) from STATS group by",
	"select x interval x", "select x limit y", "select x limit", "from", "from STATS", "select sum(", "select sum(x", "select sum)x(", "select x where", "select x where a",
	"select x where a ==", "select x where a == b c", "select x where \"a\" == 3", "select x where a eq", "select x where a frob b", "select x set", "select x set $a", "select x set $a =",
	"select x set a = b", "select x set $a = md5sum(", "select x set $a = nosuch(b)", "select x set $a = md5sum(maskdigits(b)", "select x order by", "select x order by y", "select x rorder",
	"select x group", "select x group by", "select x outfile", "select x outfile append", "select x outfile a b c", "select x logformat", "select x logformat nosuch", "select x logformat csv",
	"select \"", "select \"x", "select x,,,y", "select count(x),count(x) from STATS where x > 1 and", "SELECT X FROM stats WHERE", "select x from a b", "select count(x)) group by x",
	"select x where 1 == 1", "select x where x lacks", "select x limit 99999999999999999999", "select x outfile /proc/self/mem", "select * from *", "select $line group by $hostname interval 1 limit 0",
	"select count($line),last($line) from STATS group by $hour order by count($line) limit 3 interval 1"}

func genC10Payload(r *Rand) C10Payload {
	switch r.Intn(10) {
	case 0, 1, 2, 3: // command word x options x args inside a correct envelope
		w := c10Words[r.Intn(len(c10Words))] + c10Opts[r.Intn(len(c10Opts))]
		n := r.Intn(6)
		parts := []string{w}
		for i := 0; i < n; i++ {
			parts = append(parts, c10Args[r.Intn(len(c10Args))])
		}
		return envelope(strings.Join(parts, " "))
	case 4, 5: // map with a mutated query
		q := c10Queries[r.Intn(len(c10Queries))]
		if r.Bool(0.04) {
			// a non-positive interval: on the unchanged tree the aggregate timer
			// spins (no crash; the run hits its reduced step cap and is
			// inconclusive, DESIGN §10), but a timer API that rejects such a
			// value would take the server down
			q = "select count($line) from STATS group by $hostname interval " + PickOf(r, "0", "0", "-1", "-5") + " logformat generic"
		}
		if r.Bool(0.3) {
			// token-level mutation
			toks := strings.Fields(q)
			if len(toks) > 0 {
				i := r.Intn(len(toks))
				switch r.Intn(4) {
				case 0:
					toks = append(toks[:i], toks[i+1:]...)
				case 1:
					toks[i] = PickOf(r, "`", "\"", "(", ")", ",", "$", "`x", "x`", "``")
				case 2:
					toks = append(toks, toks[i])
				default:
					toks[i] = strings.ToUpper(toks[i])
				}
			}
			q = strings.Join(toks, " ")
		}
		sep := " "
		if r.Bool(0.1) {
			sep = ""
		}
		return envelope("map" + sep + q)
	case 6: // envelope mutations
		enc := base64.StdEncoding.EncodeToString([]byte("cat FILE regex:noop "))
		return rawPayload([]byte(PickOf(r, "protocol 3 base64 "+enc+";", "protocol;", "protocol 4.1;", "protocol 4.1 base65 "+enc+";", "protocol 4.1 base64 !!!notbase64!!!;",
			";", ";;;", "cat FILE;", "protocol 4.1 base64;", "protocol 4.1 base64 "+enc+" extra;", "protocol 99 base64 "+enc+";", "protocol x base64 "+enc+";",
			"protocol 4.1 base64 "+enc[:len(enc)-3]+";", " ;", "protocol  4.1  base64  "+enc+";", "\n;", "protocol 4.1 base64 ;")))
	case 7: // regex garbage through grep
		return envelope("grep FILE " + PickOf(r, "regex:default (((", "regex:default [a-", "regex:invert \\", "regex:default (?P<n", "regex:default a{1,99999}", "regex:default \\p{Nope}",
			"regex:noop,default x", "regex:default "+strings.Repeat("(", 200), "regex:default "+strings.Repeat("a?", 300)+strings.Repeat("a", 300)))
	case 8: // raw random bytes, terminated
		n := r.Range(1, 200)
		b := make([]byte, n)
		for i := range b {
			b[i] = byte(r.Intn(256))
		}
		return rawPayload(append(b, ';'))
	default: // short decoded payloads (argument-count edge cases)
		return envelope(PickOf(r, "", " ", "  ", "a", "tail", ".ack", ".ack close", ".ack close connection", "cat", "cat ", "cat x", "map", "map ", "grep", "health", "health x y z",
			"timeout", "timeout 5", "timeout 5 cat", "cat x y", "tail x", "x y z", ":", "cat: x", "ack"))
	}
}

func c10Gen(r *Rand, tier string, i int) Scenario {
	sc := &C10Scenario{}
	sc.Sched = GenSched(r)
	na := r.Range(1, 3)
	for a := 0; a < na; a++ {
		at := C10Attack{PauseMs: PickOf(r, 0, 1, 10, 100), ChunkMax: PickOf(r, 0, 0, 1, 3, 16)}
		np := r.Range(1, 6)
		for p := 0; p < np; p++ {
			at.Payloads = append(at.Payloads, genC10Payload(r))
		}
		if r.Bool(0.06) {
			// a well-formed mapreduce session (map + read of a readable file, so that
			// lines really reach the aggregation) whose query is legal but unusually
			// wide: many select items, many group-by fields, many conditions
			k := PickOf(r, 8, 9, 12, 33, 70)
			var fields []string
			for f := 0; f < k; f++ {
				fields = append(fields, PickOf(r, "$hostname", "$line", "$empty", "$timeoffset"))
			}
			q := "select count($line) from STATS group by " + strings.Join(fields, ",")
			switch r.Intn(3) {
			case 0:
				q = "select " + strings.Join(fields, ",") + ",count($line) from STATS group by $hostname"
			case 1:
				conds := []string{}
				for f := 0; f < k; f++ {
					conds = append(conds, "$line ne \"x\"")
				}
				q = "select count($line) from STATS where " + strings.Join(conds, " and ") + " group by $hostname"
			}
			at.Payloads = append([]C10Payload{envelope("map " + q + " interval 1 logformat generic"), envelope("cat FILE regex:noop ")}, at.Payloads...)
		}
		sc.Attackers = append(sc.Attackers, at)
	}
	sc.Net = verifsimnet.Profile{LatencyMs: PickOf(r, 0, 1), ChunkMax: PickOf(r, 0, 0, 7, 1400)}
	return sc
}

const c10VictimLines = 120

func c10Run(t *testing.T, s Scenario, src verifsim.DecisionSource, keep bool) *RunResult {
	sc := s.(*C10Scenario)
	res := &RunResult{Info: map[string]any{}}
	np := sc.Net
	stalls := stallRules([]StallSpec{{Name: "reader.perline", Site: "io/fs/readfilelcontext.go", Suffix: "/ranged", From: 0, To: -1, DurMs: 20}})
	opts := RunOpts{Src: src, KeepLabels: keep, MaxFake: 8 * time.Minute, Stalls: stalls, Net: &np, MaxSteps: 300000}
	if c10HasSpinQuery(sc) {
		opts.MaxSteps = 25000
	}
	victimLines, victimSyn, victimErr := 0, false, ""
	type attState struct {
		gotAny, closed bool
		failed         string
		terminated     int
	}
	ast := make([]*attState, len(sc.Attackers))
	res.Outcome = RunSim(t, opts, func(w *World) {
		var b bytes.Buffer
		for n := 1; n <= c10VictimLines; n++ {
			fmt.Fprintf(&b, "V:%d:victim line\n", n)
		}
		victimFile := w.WriteFile("victim.log", b.Bytes())
		attackFile := w.WriteFile("attack.log", []byte("a1\na2\na3\n"))
		w.StartSSHWorld([]string{"srv1"}, ServerCfg{MaxConns: 20, MaxCats: 8, MaxTails: 8}, nil)
		auth := []gossh.AuthMethod{gossh.PublicKeys(Key(0).Signer)}
		vdone := make(chan struct{})
		w.Sim.GoOn(w.ClientNode, "harness/victim", func() {
			defer close(vdone)
			rs := w.RawDial("victim", "srv1", simUser, auth, 10*time.Second)
			if rs.DialErr != nil {
				victimErr = "dial: " + rs.DialErr.Error()
				return
			}
			if err := rs.Shell(); err != nil {
				victimErr = "shell: " + err.Error()
				return
			}
			rs.Command(CatCommand("cat", victimFile, ""))
			for i := 0; i < 60000; i++ {
				msgs := rs.Messages()
				victimLines = 0
				for _, m := range msgs {
					if strings.HasPrefix(m, "REMOTE|") && strings.Contains(m, "|V:") {
						victimLines++
					}
					if strings.HasPrefix(m, ".syn close connection") {
						victimSyn = true
					}
				}
				if victimSyn || rs.Ended() {
					break
				}
				w.Sleep(10 * time.Millisecond)
			}
			if victimSyn {
				rs.AckClose()
				w.Sleep(20 * time.Millisecond)
			}
			rs.Close()
		})
		adone := make(chan struct{}, len(sc.Attackers))
		for ai, at := range sc.Attackers {
			ai, at := ai, at
			ast[ai] = &attState{}
			w.Sim.GoOn(w.ClientNode, "harness/attacker", func() {
				defer func() { adone <- struct{}{} }()
				st := ast[ai]
				w.Sleep(time.Duration(20+ai*7) * time.Millisecond)
				rs := w.RawDial(fmt.Sprintf("att%d", ai), "srv1", simUser, auth, 10*time.Second)
				if rs.DialErr != nil {
					st.failed = "dial: " + rs.DialErr.Error()
					return
				}
				if err := rs.Shell(); err != nil {
					st.failed = "shell: " + err.Error()
					return
				}
				for _, pl := range at.Payloads {
					p := pl.bytes(attackFile)
					if bytes.HasSuffix(p, []byte(";")) {
						st.terminated++
					}
					for len(p) > 0 {
						n := len(p)
						if at.ChunkMax > 0 && n > at.ChunkMax {
							n = at.ChunkMax
						}
						if err := rs.Raw(p[:n]); err != nil {
							st.closed = true
							break
						}
						p = p[n:]
						if at.ChunkMax > 0 {
							verifsim.Yield("harness/attackchunk")
						}
					}
					w.Sleep(time.Duration(at.PauseMs) * time.Millisecond)
				}
				// 30 simulated seconds to answer
				for i := 0; i < 300; i++ {
					if len(rs.Messages()) > 0 {
						st.gotAny = true
					}
					if rs.Ended() {
						st.closed = true
					}
					if st.gotAny || st.closed {
						break
					}
					w.Sleep(100 * time.Millisecond)
				}
				rs.Close()
			})
		}
		for range sc.Attackers {
			verifsim.Yield("harness/waitattackers")
			<-adone
		}
		verifsim.Yield("harness/waitvictim")
		<-vdone
	})
	res.NonTrivial = true
	res.Info["victim_lines"] = victimLines
	if res.Panic != "" {
		res.Class = "server-panic"
		res.Message = "a panic reached the top of a server goroutine (the real process would have crashed): " + trunc(res.Panic, 1500)
		return res
	}
	if res.Aborted != "" {
		if res.Aborted == "timecap" {
			res.Class, res.Message = "victim-starved", fmt.Sprintf("the scenario did not finish within the simulated time bound; victim received %d of %d lines", victimLines, c10VictimLines)
		}
		// stepcap: a busy loop in the server (e.g. 'interval 0' makes the aggregate
		// timer spin) never lets the fake clock advance. That burns a core in
		// reality but neither crashes the server nor ends other sessions, so it
		// is not a C10 violation: the run stays inconclusive (see DESIGN.md C10).
		return res
	}
	if victimErr != "" {
		res.Class, res.Message = "victim-failed", victimErr
		return res
	}
	if victimLines != c10VictimLines || !victimSyn {
		res.Class, res.Message = "victim-incomplete", fmt.Sprintf("the well-behaved session received %d of %d lines (close handshake seen: %v)", victimLines, c10VictimLines, victimSyn)
		return res
	}
	for ai, st := range ast {
		if st == nil || st.failed != "" {
			continue
		}
		// a well-formed map or tail command legitimately waits (for read commands /
		// for appended lines) without saying anything: not an offending session
		waits := false
		for _, p := range sc.Attackers[ai].Payloads {
			if p.Env && (bytes.HasPrefix(p.B, []byte("map")) || bytes.HasPrefix(p.B, []byte("tail"))) {
				waits = true
			}
		}
		if st.terminated > 0 && !st.gotAny && !st.closed && !waits {
			res.Class, res.Message = "no-error-no-close", fmt.Sprintf("attacker session %d sent %d terminated command(s) and within 30 simulated seconds neither received any message nor was closed: %q",
				ai, st.terminated, trunc(fmt.Sprint(c10Sample(sc).(map[string]any)["attackers"].([]any)[ai]), 400))
			return res
		}
	}
	return res
}

func c10Shape(s Scenario) string {
	sc := s.(*C10Scenario)
	var ps []string
	for _, a := range sc.Attackers {
		for _, p := range a.Payloads {
			ps = append(ps, fmt.Sprintf("%x", Mix(0, string(p.B))&0xffffff))
		}
	}
	return fmt.Sprintf("a%d/%s", len(sc.Attackers), strings.Join(ps, ","))
}

func decodeForSample(p C10Payload) string {
	if p.Env {
		return "envelope(" + fmt.Sprintf("%q", trunc(string(p.B), 120)) + ")"
	}
	return fmt.Sprintf("raw(%q)", trunc(string(p.B), 80))
}

func c10Sample(s Scenario) any {
	sc := s.(*C10Scenario)
	var as []any
	for _, a := range sc.Attackers {
		var ps []string
		for _, p := range a.Payloads {
			ps = append(ps, decodeForSample(p))
		}
		as = append(as, map[string]any{"payloads": ps, "pause_ms": a.PauseMs, "chunk_max": a.ChunkMax})
	}
	return map[string]any{"attackers": as, "net": sc.Net, "sched": sc.Sched}
}

func c10Shrink(s Scenario) []Scenario {
	sc := s.(*C10Scenario)
	var out []Scenario
	cl := func() *C10Scenario {
		n := *sc
		n.Attackers = nil
		for _, a := range sc.Attackers {
			a.Payloads = append([]C10Payload(nil), a.Payloads...)
			n.Attackers = append(n.Attackers, a)
		}
		return &n
	}
	for ai := range sc.Attackers {
		if len(sc.Attackers) > 1 {
			n := cl()
			n.Attackers = append(n.Attackers[:ai], n.Attackers[ai+1:]...)
			out = append(out, n)
		}
		for pi := range sc.Attackers[ai].Payloads {
			if len(sc.Attackers[ai].Payloads) > 1 {
				n := cl()
				n.Attackers[ai].Payloads = append(n.Attackers[ai].Payloads[:pi], n.Attackers[ai].Payloads[pi+1:]...)
				out = append(out, n)
			}
		}
		if sc.Attackers[ai].ChunkMax > 0 {
			n := cl()
			n.Attackers[ai].ChunkMax = 0
			out = append(out, n)
		}
	}
	n := cl()
	n.Sched = SchedProfile{Mode: "fifo"}
	n.Net = verifsimnet.Profile{}
	out = append(out, n)
	return out
}

func init() {
	Register(&Prop{
		ID:    "C10",
		Level: "exploration",
		Rule: "seeded generation of 1-3 authenticated attacker sessions next to a well-behaved victim session (paced cat of 120 lines spanning the attack) on one dserver; each attacker " +
			"writes 1-6 byte strings in chunks down to 1 byte: every command word x option lists (valid, 'k', 'k=', '=v', base64% garbage, huge and negative ints) x 0-5 arguments in " +
			"a correct envelope; envelope mutations (version, base64 marker, invalid base64, empty commands); map commands with ~60 malformed queries plus token-level mutations " +
			"(lone quotes/back-quotes, unbalanced parentheses, keywords without operands), non-positive intervals (reduced step cap: the unchanged server spins); regex garbage; raw random bytes; short payloads probing argument counts. " +
			"Oracle: no panic reaches the top of any server goroutine, the victim receives all lines and the close handshake, each attacker that sent a terminated command gets a " +
			"message or is closed within 30 simulated seconds. distinct = (payload set, schedule hash); every run is non-trivial",
		Real: []string{"internal/server (SSH server)", "internal/server/handlers (Write re-assembly, handleCommand, handleProtocolVersion, handleBase64, readCommand, mapCommand, health handler)",
			"internal/mapr (tokenizer, query parser), internal/mapr/server", "internal/config (DeserializeOptions)", "internal/regex", "x/crypto/ssh over simnet"},
		Stub: []string{"attackers and victim are harness-driven SSH sessions", "a panic is caught by a recover deferred at the top of every instrumented goroutine (it would kill the real process) and reported with its stack",
			"option integers above 100000 for 'before' are not generated: the before ring is allocated eagerly (memory exhaustion is outside the simulated fault set)"},
		New:      func() Scenario { return &C10Scenario{} },
		Gen:      c10Gen,
		Run:      c10Run,
		Shrink:   c10Shrink,
		Shape:    c10Shape,
		Sample:   c10Sample,
		Triggers: map[string]func(Scenario) (Scenario, bool){},
	})
}

var c10SpinRe = regexp.MustCompile(`(?i)interval\s+(0|-\d+)\b`)

// c10HasSpinQuery reports whether an attacker sends a query with a
// non-positive interval (see genC10Payload).
func c10HasSpinQuery(sc *C10Scenario) bool {
	for _, a := range sc.Attackers {
		for _, p := range a.Payloads {
			if c10SpinRe.Match(p.B) {
				return true
			}
		}
	}
	return false
}
