package verifharness

import (
	"bufio"
	"crypto/sha256"
	"encoding/hex"
	"encoding/json"
	"fmt"
	"os"
	"path/filepath"
	"regexp"
	"sort"
	"strconv"
	"strings"
	"testing"
	"time"

	"github.com/mimecast/dtail/internal/verifsim"
)

// Scenario is the JSON-serialisable description of one run's world, workload
// and fault profile.
type Scenario interface {
	Base() *ScenarioBase
}

// ScenarioBase is embedded in every scenario.
type ScenarioBase struct {
	Seed  uint64       `json:"seed"`
	Sched SchedProfile `json:"sched"`
}

func (b *ScenarioBase) Base() *ScenarioBase { return b }

// RunResult is a run's outcome plus the oracle's verdict.
type RunResult struct {
	Outcome
	Class   string         `json:"class,omitempty"` // violation class ("" = property held)
	Message string         `json:"message,omitempty"`
	Info    map[string]any `json:"info,omitempty"`
	// NonTrivial: the run exercised what the property is about (rule in Prop.Rule)
	NonTrivial bool `json:"nontrivial"`
	// Known: triggers of open known findings whose narrowly defined effect was
	// observed and discounted by the oracle (the run otherwise passed).
	Known []string `json:"known,omitempty"`
}

// openTriggers is the set of triggers of open findings of the property being
// checked; oracles may discount exactly the listed effect, nothing more.
var openTriggers = map[string]string{}

func tolerated(trigger string) bool { _, ok := openTriggers[trigger]; return ok }

// Finding is a known-finding signature (from /verif/known_findings.jsonl)
// bound to a counterfactual: Remove returns the scenario with the finding's
// trigger removed, or ok=false when the trigger is absent.
type Finding struct {
	ID          string `json:"id"`
	Property    string `json:"property"`
	Status      string `json:"status"` // open | fixed
	Trigger     string `json:"trigger"`
	Description string `json:"description"`
	What        string `json:"what"`
	Commit      string `json:"commit,omitempty"`
}

// Prop is one property's machinery.
type Prop struct {
	ID          string
	Level       string // exploration | fault_enumeration
	Rule        string // how cases are generated and what makes one non-trivial
	Real        []string
	Stub        []string
	Assumptions []string
	New         func() Scenario
	Gen         func(r *Rand, tier string, i int) Scenario
	Run         func(t *testing.T, sc Scenario, src verifsim.DecisionSource, keep bool) *RunResult
	// Shrink proposes simpler scenarios (optional).
	Shrink func(sc Scenario) []Scenario
	// Shape is a short string identifying the scenario's structural class.
	Shape func(sc Scenario) string
	// Sample renders a compact, human-readable form of the scenario.
	Sample func(sc Scenario) any
	// Triggers maps a known-finding trigger name to its counterfactual.
	Triggers map[string]func(sc Scenario) (Scenario, bool)
	// Enumerate, if set, yields the exhaustive small-scope part (C03).
	Enumerate func(tier string, worker, nworkers int, yield func(sc Scenario) bool)
	// MustProbes must be non-zero over a whole check (else exit 2).
	MustProbes []string
}

var Props = map[string]*Prop{}

func Register(p *Prop) {
	run := p.Run
	p.Run = func(t *testing.T, s Scenario, src verifsim.DecisionSource, keep bool) *RunResult {
		curSched, curSeed = s.Base().Sched, s.Base().Seed
		if v := os.Getenv("VERIF_FORCE_PREEMPT"); v != "" { // debugging aid (determinism hunts)
			curSched.PreemptM, _ = strconv.Atoi(v)
		}
		defer func() { curSched = SchedProfile{} }()
		return run(t, s, src, keep)
	}
	Props[p.ID] = p
}

// ---------------------------------------------------------------------------

type ReplayFile struct {
	Property  string              `json:"property"`
	Seed      uint64              `json:"seed"`
	Class     string              `json:"class"`
	Message   string              `json:"message"`
	Scenario  json.RawMessage     `json:"scenario"`
	Decisions []verifsim.Decision `json:"decisions"`
	Steps     int                 `json:"steps"`
	Minimised bool                `json:"minimised"`
	Note      string              `json:"note,omitempty"`
}

func envStr(name, def string) string {
	if v := os.Getenv(name); v != "" {
		return v
	}
	return def
}

func envInt(name string, def int) int {
	if v := os.Getenv(name); v != "" {
		if i, err := strconv.Atoi(v); err == nil {
			return i
		}
	}
	return def
}

func envU64(name string, def uint64) uint64 {
	if v := os.Getenv(name); v != "" {
		if i, err := strconv.ParseUint(v, 10, 64); err == nil {
			return i
		}
		if i, err := strconv.ParseInt(v, 10, 64); err == nil {
			return uint64(i)
		}
	}
	return def
}

func loadFindings(path, prop string) []Finding {
	var out []Finding
	f, err := os.Open(path)
	if err != nil {
		return nil
	}
	defer f.Close()
	sc := bufio.NewScanner(f)
	sc.Buffer(make([]byte, 1<<20), 1<<20)
	for sc.Scan() {
		line := strings.TrimSpace(sc.Text())
		if line == "" || strings.HasPrefix(line, "#") || strings.HasPrefix(line, "fixed:") {
			continue
		}
		var fd Finding
		if err := json.Unmarshal([]byte(line), &fd); err != nil {
			fmt.Fprintln(os.Stderr, "bad known_findings line:", err)
			os.Exit(2)
		}
		if fd.Property == prop {
			out = append(out, fd)
		}
	}
	return out
}

type workerStats struct {
	Runs          int               `json:"runs"`
	Inconclusive  int               `json:"inconclusive"`
	Steps         int64             `json:"steps"`
	FakeNs        int64             `json:"fake_ns"`
	Faults        map[string]int    `json:"faults"`
	Probes        map[string]int    `json:"probes"`
	NonTrivial    map[string]int    `json:"nontrivial_keys"` // distinct (shape,schedhash) of non-trivial runs
	Schedules     map[string]int    `json:"schedules"`
	SitePairs     map[string]int    `json:"site_pairs"`
	Samples       []any             `json:"samples"`
	Known         map[string]int    `json:"known"`
	KnownWhat     map[string]string `json:"known_what"`
	Violations    []string          `json:"violations"` // replay paths
	ViolationMsgs []string          `json:"violation_msgs"`
	WallS         float64           `json:"wall_s"`
	Exhaustive    bool              `json:"exhaustive"`
	EnumCases     int               `json:"enum_cases"`
	Errors        []string          `json:"errors"`
	Meta          map[string]any    `json:"meta"`
	MaxRunS       float64           `json:"max_run_s"`
	MaxRunWhat    string            `json:"max_run_what"`
}

func setOpenTriggers(findings []Finding) {
	openTriggers = map[string]string{}
	for _, f := range findings {
		if f.Status == "open" {
			openTriggers[f.Trigger] = f.ID
		}
	}
}

func cloneScenario(p *Prop, sc Scenario) Scenario {
	b, err := json.Marshal(sc)
	must(err)
	n := p.New()
	must(json.Unmarshal(b, n))
	return n
}

// Worker is the entry point of a worker process (see TestWorker).
func Worker(t *testing.T) {
	propID := os.Getenv("VERIF_PROP")
	p := Props[propID]
	if p == nil {
		fmt.Fprintln(os.Stderr, "unknown property", propID)
		os.Exit(2)
	}
	mode := os.Getenv("VERIF_MODE")
	StartWatchdog(time.Duration(envInt("VERIF_WATCHDOG_S", 90))*time.Second, func() string { return currentRun })
	switch mode {
	case "replay":
		os.Exit(replayMode(t, p, os.Getenv("VERIF_REPLAY")))
	case "trace":
		traceMode(t, p)
		return
	case "detdiff":
		detDiff(t, p)
		return
	case "oneseed":
		// run exactly the scenario generated from VERIF_RUNSEED (debugging aid)
		runSeed := envU64("VERIF_RUNSEED", 1)
		findings := loadFindings(os.Getenv("VERIF_FINDINGS"), propID)
		setOpenTriggers(findings)
		sc := p.Gen(NewRand(runSeed), envStr("VERIF_TIER", "quick"), 0)
		sc.Base().Seed = runSeed
		res := p.Run(t, sc, NewRandomSource(sc.Base().Sched, runSeed), false)
		fmt.Printf("oneseed: class=%q aborted=%q known=%v steps=%d msg=%s\n", res.Class, res.Aborted, res.Known, res.Steps, trunc(res.Message, 300))
		if p.Shape != nil {
			fmt.Printf("oneseed: shape %s\n", trunc(p.Shape(sc), 400))
		}
		if res.Class != "" {
			att := attribute(t, p, sc, res.Trace, findings, nil)
			fmt.Printf("oneseed: attributed to %d findings\n", len(att))
			for _, f := range findings {
				if fn := p.Triggers[f.Trigger]; fn != nil && f.Status == "open" {
					cf, ok := fn(cloneScenario(p, sc))
					if ok {
						r2, _ := rerun(t, p, cf, res.Trace, false, false)
						fmt.Printf("oneseed: without trigger %s alone: class=%q aborted=%q msg=%s\n", f.Trigger, r2.Class, r2.Aborted, trunc(r2.Message, 300))
					}
				}
			}
			st := &workerStats{Known: map[string]int{}, KnownWhat: map[string]string{}}
			_ = st
		}
		return
	}
	seed := envU64("VERIF_SEED", 1)
	worker := envInt("VERIF_WORKER", 0)
	nworkers := envInt("VERIF_NWORKERS", 1)
	budget := time.Duration(envInt("VERIF_BUDGET_S", 30)) * time.Second
	maxRuns := envInt("VERIF_MAXRUNS", 1<<30)
	tier := os.Getenv("VERIF_TIER")
	if tier == "" {
		tier = "quick"
	}
	outDir := os.Getenv("VERIF_OUT")
	if outDir == "" {
		outDir = "."
	}
	replayDir := os.Getenv("VERIF_REPLAYS")
	if replayDir == "" {
		replayDir = outDir
	}
	findings := loadFindings(os.Getenv("VERIF_FINDINGS"), propID)
	setOpenTriggers(findings)
	journal, _ := os.Create(filepath.Join(outDir, fmt.Sprintf("journal-%d.txt", worker)))

	st := &workerStats{Faults: map[string]int{}, Probes: map[string]int{}, NonTrivial: map[string]int{},
		Schedules: map[string]int{}, SitePairs: map[string]int{}, Known: map[string]int{}, KnownWhat: map[string]string{}}
	start := time.Now()
	maxViol := envInt("VERIF_MAXVIOL", 3)

	one := func(sc Scenario, runSeed uint64) bool {
		Heartbeat.Add(1)
		if journal != nil {
			b, _ := json.Marshal(sc)
			fmt.Fprintf(journal, "RUN seed=%d scenario=%s\n", runSeed, b)
		}
		currentRun = fmt.Sprintf("%s seed=%d", propID, runSeed)
		src := NewRandomSource(sc.Base().Sched, runSeed)
		t0 := time.Now()
		res := p.Run(t, sc, src, false)
		if d := time.Since(t0).Seconds(); d > st.MaxRunS {
			st.MaxRunS = d
			st.MaxRunWhat = fmt.Sprintf("%s steps=%d", p.Shape(sc), res.Steps)
		}
		st.Runs++
		st.Steps += int64(res.Steps)
		st.FakeNs += res.FakeNs
		for k, v := range res.Faults {
			st.Faults[k] += v
		}
		for k, v := range res.Probes {
			st.Probes[k] += v
		}
		if len(st.Schedules) < 500000 {
			st.Schedules[fmt.Sprintf("%x", res.SchedHash)]++
		}
		if len(st.SitePairs) < 100000 {
			for sp := range res.SitePairs {
				st.SitePairs[sp[0]+">"+sp[1]]++
			}
		}
		if res.Aborted != "" && res.Class == "" {
			st.Inconclusive++
			if len(st.Errors) < 5 {
				b, _ := json.Marshal(sc)
				st.Errors = append(st.Errors, fmt.Sprintf("inconclusive(%s) seed=%d scenario=%s", res.Aborted, runSeed, trunc(string(b), 400)))
			}
			return true
		}
		for _, k := range res.Known {
			if id, ok := openTriggers[k]; ok {
				st.Known[id]++
				for _, f := range findings {
					if f.ID == id {
						st.KnownWhat[id] = f.What
					}
				}
			}
		}
		if res.NonTrivial && res.Class == "" && len(st.NonTrivial) < 500000 {
			st.NonTrivial[p.Shape(sc)+"/"+fmt.Sprintf("%x", res.SchedHash)]++
		}
		if len(st.Samples) < 3 && res.NonTrivial {
			st.Samples = append(st.Samples, map[string]any{"seed": runSeed, "scenario": p.Sample(sc),
				"steps": res.Steps, "decisions_head": head(res.Trace, 12), "fake_ms": res.FakeNs / 1e6})
		}
		if res.Class != "" {
			handleViolation(t, p, sc, runSeed, res, findings, st, replayDir)
			if len(st.Violations) >= maxViol {
				return false
			}
		}
		return true
	}

	if p.Enumerate != nil {
		complete := true
		p.Enumerate(tier, worker, nworkers, func(sc Scenario) bool {
			st.EnumCases++
			ok := one(sc, sc.Base().Seed)
			if !ok || time.Since(start) > 20*budget {
				complete = false
				return false
			}
			return true
		})
		st.Exhaustive = complete
	}
	for i := 0; i < maxRuns && time.Since(start) < budget; i++ {
		runSeed := Mix(seed, propID, strconv.Itoa(worker), strconv.Itoa(i))
		r := NewRand(runSeed)
		sc := p.Gen(r, tier, i)
		sc.Base().Seed = runSeed
		if !one(sc, runSeed) {
			break
		}
	}
	st.WallS = time.Since(start).Seconds()
	st.Meta = map[string]any{"rule": p.Rule, "real": p.Real, "stub": p.Stub, "assumptions": p.Assumptions, "level": p.Level}
	b, _ := json.Marshal(st)
	must(os.WriteFile(filepath.Join(outDir, fmt.Sprintf("worker-%d.json", worker)), b, 0644))
}

var currentRun string

func trunc(s string, n int) string {
	if len(s) > n {
		return s[:n] + "..."
	}
	return s
}

func head(tr []verifsim.Decision, n int) []verifsim.Decision {
	if len(tr) > n {
		return tr[:n]
	}
	return tr
}

// rerun executes sc under a replay source.
func rerun(t *testing.T, p *Prop, sc Scenario, rec []verifsim.Decision, strict, keep bool) (*RunResult, *ReplaySource) {
	src := &ReplaySource{Rec: rec, Strict: strict}
	Heartbeat.Add(1)
	res := p.Run(t, sc, src, keep)
	return res, src
}

func handleViolation(t *testing.T, p *Prop, sc Scenario, runSeed uint64, res *RunResult,
	findings []Finding, st *workerStats, replayDir string) {

	// 1. must reproduce exactly
	r2, src := rerun(t, p, cloneScenario(p, sc), res.Trace, true, false)
	if src.Diverged != "" || r2.Class != res.Class {
		st.Errors = append(st.Errors, fmt.Sprintf("NONDETERMINISTIC seed=%d class=%s replay-class=%s diverged=%q",
			runSeed, res.Class, r2.Class, src.Diverged))
		return
	}
	// 2. known findings: remove the triggers of all open findings that are
	// present; if the run then passes, the violation belongs to them.
	if att := attribute(t, p, sc, res.Trace, findings, st); len(att) > 0 {
		for _, f := range att {
			st.Known[f.ID]++
			st.KnownWhat[f.ID] = f.What
		}
		return
	}
	// 3. minimise
	minSc, minTrace, minRes := minimise(t, p, sc, res, findings, time.Duration(envInt("VERIF_MINIMISE_S", 40))*time.Second)
	// final strict run with labels for the replay file
	fin, _ := rerun(t, p, cloneScenario(p, minSc), minTrace, false, true)
	if fin.Class != minRes.Class {
		fin, minSc = res, sc
		r, _ := rerun(t, p, cloneScenario(p, sc), res.Trace, false, true)
		fin = r
	}
	scJSON, _ := json.Marshal(minSc)
	rf := ReplayFile{Property: p.ID, Seed: runSeed, Class: fin.Class, Message: fin.Message,
		Scenario: scJSON, Decisions: fin.Trace, Steps: fin.Steps, Minimised: true}
	b, _ := json.MarshalIndent(rf, "", " ")
	h := sha256.Sum256(b)
	path := filepath.Join(replayDir, fmt.Sprintf("%s-%d-%s.json", p.ID, runSeed, hex.EncodeToString(h[:4])))
	must(os.MkdirAll(replayDir, 0755))
	must(os.WriteFile(path, b, 0644))
	// the run as found, un-minimised: minimisation re-runs in this process, and a
	// shrunk case that only fails because of state earlier runs left in the
	// process does not fail in a fresh one; the driver then falls back to this
	if orig, _ := rerun(t, p, cloneScenario(p, sc), res.Trace, false, true); orig.Class == res.Class {
		oj, _ := json.Marshal(sc)
		ob, _ := json.MarshalIndent(ReplayFile{Property: p.ID, Seed: runSeed, Class: orig.Class, Message: orig.Message,
			Scenario: oj, Decisions: orig.Trace, Steps: orig.Steps, Minimised: false}, "", " ")
		must(os.WriteFile(strings.TrimSuffix(path, ".json")+".orig.json", ob, 0644))
	}
	st.Violations = append(st.Violations, path)
	st.ViolationMsgs = append(st.ViolationMsgs, fin.Class+": "+trunc(fin.Message, 600))
}

// minimise shrinks the scenario (property-specific reducers) and the decision
// trace (truncate, zero chunks) while the same violation class persists.
// attribute returns the open findings a failing (scenario, trace) belongs to:
// the run passes once their triggers are removed. Empty = not attributable.
func attribute(t *testing.T, p *Prop, sc Scenario, trace []verifsim.Decision, findings []Finding, st *workerStats) []Finding {
	cf := cloneScenario(p, sc)
	var present []Finding
	for _, f := range findings {
		if f.Status != "open" {
			continue
		}
		fn := p.Triggers[f.Trigger]
		if fn == nil {
			if st != nil {
				st.Errors = append(st.Errors, "known finding with unknown trigger "+f.Trigger)
			}
			continue
		}
		if n, ok := fn(cf); ok {
			cf = n
			present = append(present, f)
		}
	}
	if len(present) == 0 {
		return nil
	}
	r3, _ := rerun(t, p, cf, trace, false, false)
	if r3.Class != "" || r3.Aborted != "" {
		return nil
	}
	if len(present) > 1 {
		for _, f := range present {
			one, _ := p.Triggers[f.Trigger](cloneScenario(p, sc))
			r4, _ := rerun(t, p, one, trace, false, false)
			if r4.Class == "" && r4.Aborted == "" {
				return []Finding{f}
			}
		}
	}
	return present
}

func minimise(t *testing.T, p *Prop, sc Scenario, res *RunResult, findings []Finding, budget time.Duration) (Scenario, []verifsim.Decision, *RunResult) {
	deadline := time.Now().Add(budget)
	best, bestTrace, bestRes := sc, res.Trace, res
	try := func(s Scenario, tr []verifsim.Decision) bool {
		if time.Now().After(deadline) {
			return false
		}
		r, _ := rerun(t, p, cloneScenario(p, s), tr, false, false)
		if r.Class == bestRes.Class {
			// do not drift into a known finding while shrinking
			if len(attribute(t, p, s, r.Trace, findings, nil)) > 0 {
				return false
			}
			best, bestTrace, bestRes = s, r.Trace, r
			return true
		}
		return false
	}
	// scenario reducers
	if p.Shrink != nil {
		for progress := true; progress && time.Now().Before(deadline); {
			progress = false
			for _, cand := range p.Shrink(best) {
				if try(cand, bestTrace) {
					progress = true
					break
				}
			}
		}
	}
	// trace: all-default schedule?
	if try(best, nil) {
		return best, bestTrace, bestRes
	}
	// truncate suffix (binary search on prefix length that still fails)
	lo, hi := 0, len(bestTrace)
	base := bestTrace
	for lo < hi && time.Now().Before(deadline) {
		mid := (lo + hi) / 2
		if try(best, base[:mid]) {
			hi = mid
			base = base[:mid]
			lo = 0
			hi = len(base)
			if hi == mid {
				break
			}
		} else {
			lo = mid + 1
		}
		if hi-lo <= 1 {
			break
		}
	}
	// zero chunks (ddmin style)
	tr := append([]verifsim.Decision(nil), base...)
	for chunk := len(tr) / 2; chunk >= 1 && time.Now().Before(deadline); chunk /= 2 {
		for i := 0; i < len(tr) && time.Now().Before(deadline); i += chunk {
			end := i + chunk
			if end > len(tr) {
				end = len(tr)
			}
			nz := false
			for j := i; j < end; j++ {
				if tr[j].C != 0 {
					nz = true
				}
			}
			if !nz {
				continue
			}
			cand := append([]verifsim.Decision(nil), tr...)
			for j := i; j < end; j++ {
				cand[j].C = 0
			}
			if try(best, cand) {
				tr = cand
			}
		}
	}
	return best, bestTrace, bestRes
}

func replayMode(t *testing.T, p *Prop, path string) int {
	setOpenTriggers(loadFindings(os.Getenv("VERIF_FINDINGS"), p.ID))
	b, err := os.ReadFile(path)
	if err != nil {
		fmt.Fprintln(os.Stderr, err)
		return 2
	}
	var rf ReplayFile
	if err := json.Unmarshal(b, &rf); err != nil {
		fmt.Fprintln(os.Stderr, err)
		return 2
	}
	sc := p.New()
	if err := json.Unmarshal(rf.Scenario, sc); err != nil {
		fmt.Fprintln(os.Stderr, err)
		return 2
	}
	res, src := rerun(t, p, sc, rf.Decisions, true, true)
	fmt.Printf("replay: property=%s seed=%d steps=%d recorded_class=%q class=%q\n", rf.Property, rf.Seed, res.Steps, rf.Class, res.Class)
	if res.Message != "" {
		fmt.Printf("replay: message: %s\n", res.Message)
	}
	if os.Getenv("VERIF_REPLAY_TRACE") != "" {
		for i, d := range res.Trace {
			fmt.Printf("  %5d %s n=%d c=%d %s\n", i, d.K, d.N, d.C, d.L)
		}
	}
	if res.Class != "" && res.Class == rf.Class {
		if src.Diverged != "" {
			fmt.Printf("replay: note: decision trace diverged (%s) but the same violation class occurred\n", src.Diverged)
		}
		fmt.Printf("VIOLATION property=%s replay=%s\n", rf.Property, path)
		return 1
	}
	if src.Diverged != "" {
		fmt.Printf("DIVERGED %s\n", src.Diverged)
		if res.Class == "" {
			fmt.Println("replay: the recorded schedule no longer applies to this tree and the violation did not occur")
			return 0
		}
		return 2
	}
	if res.Class != "" {
		fmt.Printf("VIOLATION property=%s replay=%s (different class than recorded)\n", rf.Property, path)
		return 1
	}
	fmt.Println("replay: violation not reproduced on this tree (property held)")
	return 0
}

// traceMode prints the full event log of N seeds (determinism self-test).
func traceMode(t *testing.T, p *Prop) {
	seed := envU64("VERIF_SEED", 1)
	n := envInt("VERIF_MAXRUNS", 3)
	tier := "quick"
	for i := 0; i < n; i++ {
		runSeed := Mix(seed, p.ID, "trace", strconv.Itoa(i))
		r := NewRand(runSeed)
		sc := p.Gen(r, tier, i)
		sc.Base().Seed = runSeed
		src := NewRandomSource(sc.Base().Sched, runSeed)
		res := p.Run(t, sc, src, true)
		h := sha256.New()
		for _, d := range res.Trace {
			fmt.Fprintf(h, "%s/%d/%d/%s;", d.K, d.N, d.C, d.L)
		}
		if dd := os.Getenv("VERIF_TRACE_DUMP"); dd != "" {
			var b strings.Builder
			for j, d := range res.Trace {
				fmt.Fprintf(&b, "%d %s/%d/%d %s\n", j, d.K, d.N, d.C, d.L)
			}
			_ = os.WriteFile(fmt.Sprintf("%s/trace-%d-%d.txt", dd, os.Getpid(), i), []byte(b.String()), 0o644)
		}
		keys := []string{}
		for k, v := range res.Info {
			keys = append(keys, scrubRunDir(fmt.Sprintf("%s=%v", k, v)))
		}
		sort.Strings(keys)
		fmt.Printf("TRACE prop=%s i=%d seed=%d steps=%d decisions=%d fake_ns=%d sched=%x tracehash=%s class=%q aborted=%q info=%s\n",
			p.ID, i, runSeed, res.Steps, len(res.Trace), res.FakeNs, res.SchedHash,
			hex.EncodeToString(h.Sum(nil)[:8]), res.Class, res.Aborted, strings.Join(keys, ","))
	}
}

// detDiff runs one generated scenario twice in this process and prints the
// first difference of the labelled decision traces (debugging aid).
func detDiff(t *testing.T, p *Prop) {
	runSeed := envU64("VERIF_SEED", 1)
	r := NewRand(runSeed)
	sc := p.Gen(r, "quick", 0)
	sc.Base().Seed = runSeed
	var traces [2][]verifsim.Decision
	for k := 0; k < 2; k++ {
		src := NewRandomSource(sc.Base().Sched, runSeed)
		res := p.Run(t, cloneScenario(p, sc), src, true)
		traces[k] = res.Trace
		fmt.Printf("run %d: steps=%d decisions=%d class=%q\n", k, res.Steps, len(res.Trace), res.Class)
	}
	a, b := traces[0], traces[1]
	for i := 0; i < len(a) && i < len(b); i++ {
		if a[i] != b[i] {
			lo := i - 15
			if lo < 0 {
				lo = 0
			}
			for j := lo; j <= i+3 && j < len(a) && j < len(b); j++ {
				fmt.Printf("%6d A %s/%d/%d %s\n       B %s/%d/%d %s\n", j, a[j].K, a[j].N, a[j].C, a[j].L, b[j].K, b[j].N, b[j].C, b[j].L)
			}
			return
		}
	}
	fmt.Println("traces identical up to the shorter length", len(a), len(b))
}

var runDirRe = regexp.MustCompile(`dsim-w-\d+-\d+`)

// scrubRunDir removes the per-process part of the run directory from a string
// that is compared across processes by the determinism self-test.
func scrubRunDir(s string) string { return runDirRe.ReplaceAllString(s, "dsim-w-*") }
