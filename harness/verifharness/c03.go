package verifharness

import (
	"bytes"
	"fmt"
	"regexp"
	"strings"
	"testing"
	"time"

	"github.com/mimecast/dtail/internal/verifsim"
	"github.com/mimecast/dtail/internal/verifsimnet"
)

// C03 — dgrep selects exactly the lines grep semantics prescribe (DESIGN.md
// §5 C03). Input-dominated: exhaustive small scope + seeded random, executed
// as real sessions under varied schedules.

type C03Scenario struct {
	ScenarioBase
	Transport    string              `json:"transport"`
	Lines        []string            `json:"lines"`
	FinalNewline bool                `json:"final_newline"`
	Regex        string              `json:"regex"`
	Invert       bool                `json:"invert"`
	Before       int                 `json:"before"`
	After        int                 `json:"after"`
	Max          int                 `json:"max"`
	Net          verifsimnet.Profile `json:"net"`
	Enumerated   bool                `json:"enumerated,omitempty"`
}

// refGrep is the reference model written from the statement. sel[i] tells
// whether line i is selected. Returns the indices to output, in order.
func refGrep(sel []bool, before, after, max int) []int {
	n := len(sel)
	out := make([]bool, n)
	// stop: index of the first selected line after the max-th selected one
	// ("trailing context after the max-th selected line ends at the next
	// selected line, and nothing after it is output"); n if there is none.
	stop := n
	if max > 0 {
		count := 0
		for i := 0; i < n; i++ {
			if sel[i] {
				count++
				if count == max+1 {
					stop = i
					break
				}
			}
		}
	}
	for i := 0; i < stop; i++ {
		if !sel[i] {
			continue
		}
		out[i] = true
		for j := i - 1; j >= 0 && j >= i-before; j-- {
			out[j] = true
		}
		for j := i + 1; j < stop && j <= i+after; j++ {
			out[j] = true
		}
	}
	var idx []int
	for i, o := range out {
		if o {
			idx = append(idx, i)
		}
	}
	return idx
}

func isNoopPattern(p string) bool { return p == "" || p == "." || p == ".*" }

func (sc *C03Scenario) selected() ([]bool, error) {
	sel := make([]bool, len(sc.Lines))
	if isNoopPattern(sc.Regex) {
		for i := range sel {
			sel[i] = true
		}
		return sel, nil
	}
	re, err := regexp.Compile(sc.Regex)
	if err != nil {
		return nil, err
	}
	for i, l := range sc.Lines {
		sel[i] = re.MatchString(l) != sc.Invert
	}
	return sel, nil
}

func (sc *C03Scenario) content() []byte {
	var b bytes.Buffer
	for i, l := range sc.Lines {
		b.WriteString(l)
		if i < len(sc.Lines)-1 || sc.FinalNewline {
			b.WriteByte('\n')
		}
	}
	return b.Bytes()
}

func c03Enumerate(tier string, worker, nworkers int, yield func(Scenario) bool) {
	maxN := 5
	if tier == "thorough" {
		maxN = 7
	}
	idx := 0
	for n := 0; n <= maxN; n++ {
		for pat := 0; pat < 1<<n; pat++ {
			for before := 0; before <= 3; before++ {
				for after := 0; after <= 3; after++ {
					for max := 0; max <= 3; max++ {
						for inv := 0; inv < 2; inv++ {
							idx++
							if idx%nworkers != worker {
								continue
							}
							sc := &C03Scenario{Transport: "serverless", FinalNewline: true, Regex: "M", Invert: inv == 1,
								Before: before, After: after, Max: max, Enumerated: true}
							for i := 0; i < n; i++ {
								m := "U"
								if pat&(1<<i) != 0 {
									m = "M"
								}
								sc.Lines = append(sc.Lines, fmt.Sprintf("%d:%s", i+1, m))
							}
							sc.Seed = Mix(uint64(idx), "c03enum")
							r := NewRand(sc.Seed)
							sc.Sched = GenSched(r)
							if !yield(sc) {
								return
							}
						}
					}
				}
			}
		}
	}
}

var c03Words = []string{"a  b", "tab\there", "foo", "bar", "baz", "ERROR", "WARN", "info", "x", "42", "7", "a b", "", " ", "foo.bar", "[x]", "a|b", "tail$", "^head"}

var c03Regexes = []string{"foo", "bar|baz", "^\\d+ foo", "ERROR$", "x$", "^\\d+ $", "\\s$", "[^ ]$", "fo+", "ba[rz]", "(?i)error", "\\d\\d", "a b",
	"^\\d+ (foo|bar)", "foo.*bar", "\\.", "\\[x\\]", "a\\|b", "tail\\$", "\\^head", "\\bfoo\\b", "o{2}", "[[:upper:]]+", "^.{0,4}$", "\\n", "(?m)foo$", "^[^\\n]*$",
	".", ".*", "\\S+ \\S+ \\S+", "7|42", "^\\d+ *$", "  ", "a  b", "foo ", " foo", "\t", "o  b", " $", "^\\d+  "}

func c03Gen(r *Rand, tier string, i int) Scenario {
	sc := &C03Scenario{}
	sc.Sched = GenSched(r)
	sc.Transport = "serverless"
	if r.Bool(0.05) {
		sc.Transport = "ssh"
		sc.Net = genNetProfile(r)
		if sc.Net.ChunkMax > 0 && sc.Net.ChunkMax < 64 {
			sc.Net.ChunkMax = 1400
		}
	}
	n := PickOf(r, r.Intn(12), r.Intn(60), r.Intn(400))
	for k := 0; k < n; k++ {
		nw := r.Intn(4)
		var ws []string
		for j := 0; j < nw; j++ {
			ws = append(ws, c03Words[r.Intn(len(c03Words))])
		}
		sc.Lines = append(sc.Lines, fmt.Sprintf("%d %s", k+1, strings.Join(ws, " ")))
	}
	sc.FinalNewline = r.Bool(0.8)
	sc.Regex = c03Regexes[r.Intn(len(c03Regexes))]
	if r.Bool(0.2) && n > 0 {
		// bare lines (no running number in front) from a small pool in which one
		// line is a proper substring of others, and a pattern derived from one of
		// the lines: the whole line, anchored or not, a prefix, a suffix
		pool := []string{"foo", "foo bar", "a foo b", "foobar", "xfoo", "", "bar", "ERROR", "error: foo", "42", "x", "foo", "4 2", "a.b", "aXb", "a  b", "foo ", " foo", "foo\tbar"}
		sc.Lines = nil
		for k := 0; k < n; k++ {
			sc.Lines = append(sc.Lines, pool[r.Intn(len(pool))])
		}
		base := sc.Lines[r.Intn(len(sc.Lines))]
		q := regexp.QuoteMeta(base)
		sc.Regex = PickOf(r, "^"+q+"$", "^"+q+"$", "\\A"+q+"\\z", "^"+q, q+"$", q, "^(?:"+q+")$", "(?i)^"+q+"$", "^"+base+"$")
		if sc.Regex == "" {
			sc.Regex = "^$" // dgrep refuses to start without a pattern
		}
	}
	sc.Invert = r.Bool(0.3)
	lim := n + 2
	pick := func() int {
		switch r.Intn(4) {
		case 0:
			return 0
		case 1:
			return r.Intn(4)
		default:
			return r.Intn(lim + 1)
		}
	}
	sc.Before, sc.After, sc.Max = pick(), pick(), pick()
	return sc
}

func c03Run(t *testing.T, s Scenario, src verifsim.DecisionSource, keep bool) *RunResult {
	sc := s.(*C03Scenario)
	res := &RunResult{Info: map[string]any{}}
	if n := len(sc.Lines); n > 0 && sc.Lines[n-1] == "" && !sc.FinalNewline {
		// an empty last line without newline is no line at all: the file would
		// hold one line fewer than the model (generator artefact, not a finding)
		sc.FinalNewline = true
	}
	sel, err := sc.selected()
	if err != nil {
		res.Aborted = "bad-regex"
		return res
	}
	var proc *ClientProc
	var stdout []byte
	opts := RunOpts{Src: src, KeepLabels: keep, MaxFake: 5 * time.Minute}
	if sc.Transport == "ssh" {
		np := sc.Net
		opts.Net = &np
	}
	res.Outcome = RunSim(t, opts, func(w *World) {
		w.WriteFile("g.log", sc.content())
		spec := ReadSpec{Kind: "grep", Transport: sc.Transport, Plain: true, NoColor: true, Files: []string{"g.log"},
			Regex: sc.Regex, Invert: sc.Invert, Before: sc.Before, After: sc.After, Max: sc.Max}
		keyPath := ""
		if sc.Transport == "ssh" {
			spec.Hosts = []string{"srv1"}
			keyPath = w.StartSSHWorld(spec.Hosts, ServerCfg{}, nil)
		}
		proc = w.MakeReadClient(spec, keyPath)
		w.RunClient(proc, sc.Transport == "ssh")
		stdout = w.Stdout(proc.StdoutCut)
	})
	nsel := 0
	for _, b := range sel {
		if b {
			nsel++
		}
	}
	res.NonTrivial = nsel > 0 && nsel < len(sel) || (sc.Before+sc.After+sc.Max > 0 && len(sel) > 1)
	if res.Panic != "" {
		res.Class, res.Message = "panic", res.Panic
		return res
	}
	if res.Aborted != "" {
		if res.Aborted == "timecap" {
			res.Class, res.Message = "no-termination", "client did not exit within the simulated time bound"
		}
		return res
	}
	if proc == nil || !proc.Exited {
		res.Class, res.Message = "no-exit", "client process did not exit"
		return res
	}
	if proc.Panic != "" {
		res.Class, res.Message = "client-panic", proc.Panic
		return res
	}
	want := refGrep(sel, sc.Before, sc.After, sc.Max)
	var exp bytes.Buffer
	for _, i := range want {
		exp.WriteString(sc.Lines[i])
		if i < len(sc.Lines)-1 || sc.FinalNewline {
			exp.WriteByte('\n')
		}
	}
	// diagnostics records are not part of the selection
	var got bytes.Buffer
	for _, ln := range bytes.SplitAfter(stdout, []byte("\n")) {
		if bytes.HasPrefix(ln, []byte("CLIENT|")) || bytes.HasPrefix(ln, []byte("SERVER|")) {
			continue
		}
		got.Write(ln)
	}
	if !bytes.Equal(got.Bytes(), exp.Bytes()) {
		res.Class = "selection-differs"
		res.Message = fmt.Sprintf("regex %q invert=%v before=%d after=%d max=%d over %d lines: expected lines %v; got %q",
			sc.Regex, sc.Invert, sc.Before, sc.After, sc.Max, len(sc.Lines), oneBased(want), trunc(got.String(), 300))
	}
	if res.Class == "" && proc.Status != 0 {
		res.Class, res.Message = "exit-status", fmt.Sprintf("exit status %d", proc.Status)
	}
	return res
}

func oneBased(x []int) []int {
	o := make([]int, len(x))
	for i, v := range x {
		o[i] = v + 1
	}
	if len(o) > 40 {
		o = o[:40]
	}
	return o
}

func c03Shape(s Scenario) string {
	sc := s.(*C03Scenario)
	if sc.Enumerated {
		return fmt.Sprintf("enum/%s/i%v/b%d/a%d/m%d", strings.Join(sc.Lines, ","), sc.Invert, sc.Before, sc.After, sc.Max)
	}
	return fmt.Sprintf("rand/%s/n%d/%q/i%v/b%d/a%d/m%d/nl%v/%x", sc.Transport, len(sc.Lines), sc.Regex, sc.Invert, sc.Before, sc.After, sc.Max,
		sc.FinalNewline, Mix(0, strings.Join(sc.Lines, "\n"))&0xffff)
}

func c03Sample(s Scenario) any {
	sc := s.(*C03Scenario)
	l := sc.Lines
	if len(l) > 8 {
		l = l[:8]
	}
	return map[string]any{"transport": sc.Transport, "n_lines": len(sc.Lines), "lines_head": l, "regex": sc.Regex, "invert": sc.Invert,
		"before": sc.Before, "after": sc.After, "max": sc.Max, "final_newline": sc.FinalNewline, "enumerated": sc.Enumerated, "sched": sc.Sched}
}

func c03Shrink(s Scenario) []Scenario {
	sc := s.(*C03Scenario)
	var out []Scenario
	mk := func(f func(n *C03Scenario)) {
		n := *sc
		n.Lines = append([]string(nil), sc.Lines...)
		f(&n)
		out = append(out, &n)
	}
	if len(sc.Lines) > 1 {
		mk(func(n *C03Scenario) { n.Lines = n.Lines[:len(n.Lines)/2] })
		mk(func(n *C03Scenario) { n.Lines = n.Lines[len(n.Lines)/2:] })
		mk(func(n *C03Scenario) { n.Lines = n.Lines[:len(n.Lines)-1] })
		mk(func(n *C03Scenario) { n.Lines = n.Lines[1:] })
	}
	for _, f := range []func(n *C03Scenario){
		func(n *C03Scenario) { n.Before = 0 }, func(n *C03Scenario) { n.After = 0 }, func(n *C03Scenario) { n.Max = 0 },
		func(n *C03Scenario) { n.Before /= 2 }, func(n *C03Scenario) { n.After /= 2 }, func(n *C03Scenario) { n.Max /= 2 },
		func(n *C03Scenario) { n.Invert = false }, func(n *C03Scenario) { n.Transport = "serverless" },
		func(n *C03Scenario) { n.Sched = SchedProfile{Mode: "fifo"} },
	} {
		mk(f)
	}
	return out
}

func init() {
	Register(&Prop{
		ID:    "C03",
		Level: "exploration",
		Rule: "exhaustive small scope: every match/non-match pattern of files with n <= 5 (quick) / 7 (thorough) lines x before,after,max in 0..3 x invert, " +
			"plus seeded random files (<= 400 lines), RE2 patterns (anchors, classes, alternation, (?i), the noop patterns '.' and '.*'), context values up to n+2; " +
			"each case is a real dgrep --plain session under a seeded schedule (5 % over SSH); non-trivial = some but not all lines selected or context/max in effect; " +
			"distinct = (case, schedule hash). The deciding dimension is the input space; the schedule is secondary (reader/filter pipeline and buffer recycling).",
		Real:        []string{"internal/clients (grep client)", "internal/server/handlers", "internal/io/fs (readfile, readfilelcontext)", "internal/regex", "stdlib regexp (also used by the oracle: trusted)"},
		Stub:        []string{"cmd/dgrep main replaced by a replica"},
		Assumptions: []string{"Go's regexp package decides whether a line (without its newline) matches; the oracle owns only context/max/invert logic"},
		New:         func() Scenario { return &C03Scenario{} },
		Gen:         c03Gen,
		Run:         c03Run,
		Shrink:      c03Shrink,
		Shape:       c03Shape,
		Sample:      c03Sample,
		Enumerate:   c03Enumerate,
		Triggers:    map[string]func(Scenario) (Scenario, bool){},
	})
}
