//go:build go1.25

//go:debug asynctimerchan=0

package verifharness

import (
	"os"
	"runtime"
	"testing"
)

func TestMain(m *testing.M) {
	runtime.GOMAXPROCS(1)
	os.Exit(m.Run())
}

// TestWorker is the only entry point: the dsim driver starts this binary once
// per worker process with VERIF_* environment variables.
func TestWorker(t *testing.T) {
	if os.Getenv("VERIF_PROP") == "" {
		t.Skip("not started by dsim")
	}
	Worker(t)
}
