package verifharness

import (
	"bytes"
	"fmt"
	"os"
	"path/filepath"
	"regexp"
	"strconv"
	"strings"
	"testing"
	"time"

	"github.com/mimecast/dtail/internal/verifsim"
	"github.com/mimecast/dtail/internal/verifsimnet"
)

// C07 — multi-source output is a whole-line interleaving with correct
// attribution (DESIGN.md §5 C07).

type C07File struct {
	Path string `json:"path"` // relative to data/
	ID   string `json:"id"`   // expected source id
	Lens []int  `json:"lens"` // payload length per line
	// NoFinalNL: the last line of the file is not terminated by a newline
	NoFinalNL bool `json:"no_final_nl,omitempty"`
}

type C07Scenario struct {
	ScenarioBase
	Kind   string              `json:"kind"` // cat | grep
	Hosts  []string            `json:"hosts"`
	Glob   string              `json:"glob"`
	Files  []C07File           `json:"files"`
	Cfg    ServerCfg           `json:"cfg"`
	Stalls []StallSpec         `json:"stalls"`
	Net    verifsimnet.Profile `json:"net"`
	// Compress: every file is stored compressed under its name + "." + Compress
	// (gz | zst | ""), and the glob carries the same suffix
	Compress string `json:"compress,omitempty"`
	// Color: terminal colours on; the oracle reads the output with the ANSI
	// escape sequences removed
	Color bool `json:"color,omitempty"`
	// Unknown: indices of servers whose host key is missing from known_hosts: the
	// client prompts (the scripted user answers "y") while the other servers'
	// records arrive - the stdout logger is paused and resumed in mid-stream
	Unknown []int `json:"unknown,omitempty"`
	// Decoys: paths matched by the glob that must not be served (directories
	// whose names sort between the files) - the source ids and running numbers
	// of the files after them must not shift
	Decoys []string `json:"decoys,omitempty"`
	// LogLevel of the client: its own diagnostics share the output stream (and
	// the pooled string builders) with the records
	LogLevel string `json:"log_level,omitempty"`
}

func c07Line(file, n, plen int) string {
	tag := fmt.Sprintf("S:%d:%d:", file, n)
	var b strings.Builder
	b.WriteString(tag)
	for i := 0; i < plen; i++ {
		b.WriteByte("abcdefghijklmnopqrstuvwxyz0123456789"[(i*7+n+file)%36])
	}
	return b.String()
}

func (sc *C07Scenario) content(i int) []byte {
	var b bytes.Buffer
	for n, l := range sc.Files[i].Lens {
		b.WriteString(c07Line(i, n+1, l))
		if n < len(sc.Files[i].Lens)-1 || !sc.Files[i].NoFinalNL {
			b.WriteByte('\n')
		}
	}
	return b.Bytes()
}

func c07Gen(r *Rand, tier string, i int) Scenario {
	sc := &C07Scenario{}
	sc.Sched = GenSched(r)
	sc.Kind = PickOf(r, "cat", "cat", "grep")
	nh := PickOf(r, 1, 2, 2, 3, 3, 4, 5)
	for h := 0; h < nh; h++ {
		sc.Hosts = append(sc.Hosts, fmt.Sprintf("srv%d", h+1))
	}
	nf := r.Range(1, 4)
	layout := r.Intn(4)
	for f := 0; f < nf; f++ {
		var p, id string
		switch layout {
		case 0: // data/*/app.log
			id = fmt.Sprintf("dir%d", f)
			p = id + "/app.log"
			sc.Glob = "*/app.log"
		case 1: // data/logs/*.log
			id = fmt.Sprintf("file%d.log", f)
			p = "logs/" + id
			sc.Glob = "logs/*.log"
		case 2: // data/*/*.log
			id = fmt.Sprintf("d%d/f%d.log", f%2, f)
			p = id
			sc.Glob = "*/*.log"
		default: // one explicit path
			id = "only.log"
			p = "x/only.log"
			sc.Glob = p
		}
		var lens []int
		nl := PickOf(r, 0, 1, 3, 10, 40, 120)
		if f == 0 && r.Bool(0.04) {
			nl = PickOf(r, 1005, 1100) // running numbers with four digits
		}
		for k := 0; k < nl; k++ {
			switch r.Intn(12) {
			case 0:
				lens = append(lens, 0)
			case 1:
				if nl > 1000 {
					lens = append(lens, 3)
					break
				}
				lens = append(lens, PickOf(r, 5000, 33000, 60000, 70000, 150000))
			default:
				lens = append(lens, r.Intn(80))
			}
		}
		sc.Files = append(sc.Files, C07File{Path: p, ID: id, Lens: lens, NoFinalNL: r.Bool(0.25)})
		if layout == 3 {
			break
		}
	}
	if layout != 3 && r.Bool(0.25) {
		switch layout {
		case 0:
			sc.Decoys = []string{"dir0x/app.log"}
		case 1:
			sc.Decoys = []string{"logs/file0x.log", "logs/a-first.log"}
		default:
			sc.Decoys = []string{"d0/f0x.log"}
		}
	}
	if r.Bool(0.25) {
		// compressed sources: several decompressors run at once in one server
		sc.Compress = PickOf(r, "gz", "gz", "zst")
		sc.Glob += "." + sc.Compress
		for f := range sc.Files {
			sc.Files[f].Path += "." + sc.Compress
			if layout != 0 {
				sc.Files[f].ID += "." + sc.Compress
			}
		}
	}
	sc.Cfg.MaxCats = PickOf(r, 1, 2, 3)
	sc.Net = genNetProfile(r)
	if sc.Net.ChunkMax > 0 && sc.Net.ChunkMax < 64 {
		sc.Net.ChunkMax = 1400
	}
	if nh > 1 && r.Bool(0.6) {
		sc.Net.ConnLatency = map[string]int{}
		for _, h := range sc.Hosts {
			sc.Net.ConnLatency[h] = PickOf(r, 0, 0, 1, 10, 100)
		}
	}
	sc.Color = r.Bool(0.3)
	// unknown hosts: needs the cooperative mutex of the simulator (the stdout
	// logger waits for the resume signal with its mutex locked, DESIGN §2.2)
	if nh > 1 && r.Bool(0.25) {
		for h := 1; h < nh; h++ { // server 0 always stays known
			if r.Bool(0.5) {
				sc.Unknown = append(sc.Unknown, h)
			}
		}
		if len(sc.Unknown) > 0 {
			// slow readers: the known servers are still streaming when the prompt
			// appears (2 s after the first unknown host) and when it is answered
			sc.Stalls = append(sc.Stalls, StallSpec{Name: "reader.perline", Site: "io/fs/readfilelcontext.go", Suffix: "/ranged", From: 0, To: -1, DurMs: PickOf(r, 20, 50, 100)})
			// and the user takes a while to answer: records arrive during the pause
			sc.Stalls = append(sc.Stalls, StallSpec{Name: "user.thinks", Site: "user/answers", Suffix: "", From: 0, To: -1, DurMs: PickOf(r, 300, 1000, 2500)})
		}
	}
	sc.LogLevel = PickOf(r, "", "", "debug", "trace")
	if r.Bool(0.3) {
		sc.Stalls = append(sc.Stalls, StallSpec{Name: "consumer.uniform", Site: siteStdoutLock, Suffix: "/lock", From: 0, To: -1, DurMs: 1})
	}
	if len(sc.Unknown) == 0 && r.Bool(0.04) {
		// a session that lasts longer than 10 s with megabytes in flight: every
		// server has a file of 24 long lines (more than the 2 MiB channel window
		// in total) and the terminal stops taking output for 11-25 s early on, so
		// that the servers' writes block in the middle of records for that long
		var lens []int
		for k := 0; k < 24; k++ {
			lens = append(lens, PickOf(r, 70000, 150000))
		}
		sc.Files = []C07File{{Path: "x/only.log", ID: "only.log", Lens: lens}}
		sc.Glob = "x/only.log"
		sc.Compress, sc.Decoys, sc.Kind = "", nil, "cat"
		sc.Color = false
		h := r.Range(2, 12)
		sc.Stalls = []StallSpec{{Name: "consumer.single", Site: siteStdoutLock, Suffix: "/lock", From: h, To: h + 1, DurMs: PickOf(r, 11000, 16000, 25000)}}
	}
	return sc
}

func c07Run(t *testing.T, s Scenario, src verifsim.DecisionSource, keep bool) *RunResult {
	sc := s.(*C07Scenario)
	res := &RunResult{Info: map[string]any{}}
	var proc *ClientProc
	var stdout []byte
	np := sc.Net
	opts := RunOpts{Src: src, KeepLabels: keep, MaxFake: 10 * time.Minute, Stalls: stallRules(sc.Stalls), Net: &np}
	res.Outcome = RunSim(t, opts, func(w *World) {
		for i, f := range sc.Files {
			w.WriteFile(f.Path, compress(sc.Compress, sc.content(i)))
		}
		for _, d := range sc.Decoys {
			if sc.Compress != "" {
				d += "." + sc.Compress
			}
			must(os.MkdirAll(w.Data(d), 0755))
		}
		spec := ReadSpec{Kind: sc.Kind, Transport: "ssh", Hosts: sc.Hosts, Plain: false, NoColor: !sc.Color, LogLevel: sc.LogLevel, Files: []string{sc.Glob}}
		if sc.Kind == "grep" {
			spec.Regex = "^S:"
		}
		keyPath := w.StartSSHWorld(sc.Hosts, sc.Cfg, nil)
		if len(sc.Unknown) > 0 {
			spec.AskHosts = true
			khPath := filepath.Join(w.Dir, "home", ".ssh", "known_hosts")
			kh, err := os.ReadFile(khPath)
			must(err)
			var keep []string
			for _, ln := range strings.Split(strings.TrimSuffix(string(kh), "\n"), "\n") {
				drop := false
				for _, u := range sc.Unknown {
					if strings.HasPrefix(ln, fmt.Sprintf("[%s]:", sc.Hosts[u])) || strings.HasPrefix(ln, fmt.Sprintf("[10.0.0.%d]:", u+1)) {
						drop = true
					}
				}
				if !drop {
					keep = append(keep, ln)
				}
			}
			must(os.WriteFile(khPath, []byte(strings.Join(keep, "\n")+"\n"), 0600))
			// the scripted user: "y" to every prompt (one answer per 4096-byte line, see c17.go)
			var in bytes.Buffer
			for k := 0; k < 8; k++ {
				in.WriteString("y" + strings.Repeat(" ", 4094) + "\n")
			}
			inPath := filepath.Join(w.Dir, "stdin-c07")
			must(os.WriteFile(inPath, in.Bytes(), 0600))
			f, err := os.Open(inPath)
			must(err)
			oldStdin := os.Stdin
			os.Stdin = f
			defer func() { os.Stdin = oldStdin; f.Close() }()
		}
		proc = w.MakeReadClient(spec, keyPath)
		w.RunClient(proc, true)
		stdout = w.Stdout(proc.StdoutCut)
	})
	total := 0
	for _, f := range sc.Files {
		total += len(f.Lens)
	}
	res.NonTrivial = total > 0 && (len(sc.Hosts) > 1 || len(sc.Files) > 1)
	if res.Panic != "" {
		res.Class, res.Message = "panic", res.Panic
		return res
	}
	if res.Aborted != "" {
		if res.Aborted == "timecap" {
			res.Class, res.Message = "no-termination", "client did not exit within the simulated time bound"
		}
		return res
	}
	if proc == nil || !proc.Exited {
		res.Class, res.Message = "no-exit", "client process did not exit"
		return res
	}
	if proc.Panic != "" {
		res.Class, res.Message = "client-panic", proc.Panic
		return res
	}
	if sc.Color {
		stdout = sgrRe.ReplaceAll(stdout, nil)
	}
	if len(sc.Unknown) > 0 {
		stdout = c07PromptRe.ReplaceAll(stdout, nil)
	}
	if cls, msg := c07Oracle(sc, stdout); cls != "" {
		res.Class, res.Message = cls, msg
		return res
	}
	if proc.Status != 0 {
		res.Class, res.Message = "exit-status", fmt.Sprintf("exit status %d", proc.Status)
	}
	return res
}

// the host-key prompt (question without a final newline; the scripted user's
// answer is not echoed)
var c07PromptRe = regexp.MustCompile(`Encountered \d+ unknown hosts: '[^']*'\nDo you want to trust these hosts\?\? \([^)]*\): `)

func c07Oracle(sc *C07Scenario, stdout []byte) (string, string) {
	type key struct {
		host string
		file int
	}
	next := map[key]int{}
	hostOK := map[string]bool{}
	for _, h := range sc.Hosts {
		hostOK[h] = true
	}
	recs := strings.Split(string(stdout), "\n")
	if len(recs) > 0 && recs[len(recs)-1] == "" {
		recs = recs[:len(recs)-1]
	}
	for _, rec := range recs {
		if strings.HasPrefix(rec, "CLIENT|") || strings.HasPrefix(rec, "SERVER|") {
			continue
		}
		parts := strings.SplitN(rec, "|", 6)
		if len(parts) != 6 || parts[0] != "REMOTE" {
			return "not-a-whole-record", fmt.Sprintf("output line is not one whole record: %q", trunc(rec, 120))
		}
		host, count, id, content := parts[1], strings.TrimSpace(parts[3]), parts[4], parts[5]
		f := strings.SplitN(content, ":", 4)
		if len(f) != 4 || f[0] != "S" {
			return "not-a-whole-line", fmt.Sprintf("record content is not one generated line: %q", trunc(content, 120))
		}
		fi, e1 := strconv.Atoi(f[1])
		n, e2 := strconv.Atoi(f[2])
		if e1 != nil || e2 != nil || fi < 0 || fi >= len(sc.Files) || n < 1 || n > len(sc.Files[fi].Lens) {
			return "not-a-whole-line", fmt.Sprintf("record content is not one generated line: %q", trunc(content, 120))
		}
		if want := c07Line(fi, n, sc.Files[fi].Lens[n-1]); want != content {
			return "not-a-whole-line", fmt.Sprintf("record content differs from line %d of file %d: got %d bytes %q..., want %d bytes",
				n, fi, len(content), trunc(content, 60), len(want))
		}
		if !hostOK[host] {
			return "wrong-host", fmt.Sprintf("record labelled with unknown host %q", host)
		}
		if id != sc.Files[fi].ID {
			return "wrong-source-id", fmt.Sprintf("line of %s labelled with source id %q, expected %q", sc.Files[fi].Path, id, sc.Files[fi].ID)
		}
		if c, _ := strconv.Atoi(count); c != n {
			return "wrong-count", fmt.Sprintf("line %d of %s labelled with running number %q", n, sc.Files[fi].Path, count)
		}
		k := key{host, fi}
		if n != next[k]+1 {
			if n <= next[k] {
				return "order-or-duplicate", fmt.Sprintf("host %s file %d: line %d after line %d", host, fi, n, next[k])
			}
			return "line-missing", fmt.Sprintf("host %s file %d: line %d follows line %d", host, fi, n, next[k])
		}
		next[k] = n
	}
	for _, h := range sc.Hosts {
		for fi, f := range sc.Files {
			if next[key{h, fi}] != len(f.Lens) {
				return "line-missing", fmt.Sprintf("host %s file %d (%s): %d of %d lines delivered", h, fi, f.Path, next[key{h, fi}], len(f.Lens))
			}
		}
	}
	return "", ""
}

func c07Shape(s Scenario) string {
	sc := s.(*C07Scenario)
	var sz []string
	for _, f := range sc.Files {
		mx := 0
		for _, l := range f.Lens {
			if l > mx {
				mx = l
			}
		}
		sz = append(sz, fmt.Sprintf("%dx%d", len(f.Lens), mx))
	}
	nonl := 0
	for _, f := range sc.Files {
		if f.NoFinalNL {
			nonl++
		}
	}
	return fmt.Sprintf("%s/color=%v%s/h%d/%s/%s/cats%d/lat%v/chunk%d/nonl%d", sc.Kind, sc.Color, sc.LogLevel, len(sc.Hosts), sc.Glob, strings.Join(sz, ","), sc.Cfg.MaxCats, sc.Net.ConnLatency, sc.Net.ChunkMax, nonl)
}

func c07Sample(s Scenario) any {
	sc := s.(*C07Scenario)
	var fs []map[string]any
	for _, f := range sc.Files {
		fs = append(fs, map[string]any{"path": f.Path, "id": f.ID, "lines": len(f.Lens), "no_final_newline": f.NoFinalNL})
	}
	return map[string]any{"kind": sc.Kind, "hosts": sc.Hosts, "glob": sc.Glob, "files": fs, "max_cats": sc.Cfg.MaxCats, "color": sc.Color, "net": sc.Net, "stalls": sc.Stalls, "sched": sc.Sched}
}

func c07Shrink(s Scenario) []Scenario {
	sc := s.(*C07Scenario)
	var out []Scenario
	cl := func() *C07Scenario {
		n := *sc
		n.Hosts = append([]string(nil), sc.Hosts...)
		n.Files = nil
		for _, f := range sc.Files {
			f.Lens = append([]int(nil), f.Lens...)
			n.Files = append(n.Files, f)
		}
		n.Stalls = append([]StallSpec(nil), sc.Stalls...)
		return &n
	}
	if len(sc.Hosts) > 1 {
		n := cl()
		n.Hosts = n.Hosts[:len(n.Hosts)-1]
		out = append(out, n)
	}
	for i, f := range sc.Files {
		if len(f.Lens) > 0 {
			n := cl()
			n.Files[i].Lens = n.Files[i].Lens[:len(f.Lens)/2]
			out = append(out, n)
			n2 := cl()
			for k := range n2.Files[i].Lens {
				if n2.Files[i].Lens[k] > 10 {
					n2.Files[i].Lens[k] = 10
				}
			}
			out = append(out, n2)
		}
	}
	if len(sc.Stalls) > 0 {
		n := cl()
		n.Stalls = nil
		out = append(out, n)
	}
	for i, f := range sc.Files {
		if f.NoFinalNL {
			n := cl()
			n.Files[i].NoFinalNL = false
			out = append(out, n)
		}
	}
	n := cl()
	n.Net = verifsimnet.Profile{}
	out = append(out, n)
	if sc.Color {
		n := cl()
		n.Color = false
		out = append(out, n)
	}
	if sc.LogLevel != "" {
		n := cl()
		n.LogLevel = ""
		out = append(out, n)
	}
	if len(sc.Decoys) > 0 {
		n := cl()
		n.Decoys = nil
		out = append(out, n)
	}
	if len(sc.Unknown) > 0 {
		n := cl()
		n.Unknown = nil
		out = append(out, n)
	}
	n3 := cl()
	n3.Sched = SchedProfile{Mode: "fifo"}
	out = append(out, n3)
	return out
}

func init() {
	Register(&Prop{
		ID:    "C07",
		Level: "exploration",
		Rule: "seeded generation of non-plain dcat/dgrep sessions (30% with terminal colours, read with the escape sequences removed; unterminated last lines; gzip/zstd sources) against 1-5 simulated dservers (distinct host names) reading 1-4 files through globs with '*' in " +
			"different path components, tagged lines of 0-150000 bytes (longer than one SSH packet, than the 32 KiB copy buffer and than 64 KiB), per-server link latency, " +
			"network chunking, MaxConcurrentCats 1-3, consumer pacing; non-trivial = at least one line and several hosts or files; distinct = (scenario shape, schedule hash)",
		Real: []string{"internal/clients (one handler per connection)", "internal/server x N (real SSH servers)", "internal/server/handlers (makeGlobID, Read framing)",
			"internal/io/dlog stdout logger", "x/crypto/ssh over simnet"},
		Stub:        []string{"cmd/dcat main replica", "TCP replaced by simnet", "all simulated servers share one process, one file system and one config.Server"},
		Assumptions: []string{"every server reads the same files (one file system), so attribution by host is checked through the host field, per (host,file) completeness and order"},
		New:         func() Scenario { return &C07Scenario{} },
		Gen:         c07Gen,
		Run:         c07Run,
		Shrink:      c07Shrink,
		Shape:       c07Shape,
		Sample:      c07Sample,
		Triggers:    map[string]func(Scenario) (Scenario, bool){},
	})
}
