package verifharness

import (
	"bytes"
	"fmt"
	"os"
	"sort"
	"strconv"
	"strings"
	"testing"
	"time"

	"github.com/mimecast/dtail/internal/verifsim"
	"github.com/mimecast/dtail/internal/verifsimnet"
)

// C06 — mapreduce accounts for every file of every server under any
// scheduling (DESIGN.md §5 C06). Conservation + termination.

type C06Scenario struct {
	ScenarioBase
	Transport string              `json:"transport"` // serverless | ssh
	Hosts     int                 `json:"hosts"`
	Cfg       ServerCfg           `json:"cfg"`
	Files     []int               `json:"files"`    // lines per file
	Commands  []string            `json:"commands"` // file arguments: globs / paths relative to data/
	Groups    int                 `json:"groups"`
	Interval  int                 `json:"interval"`
	Stalls    []StallSpec         `json:"stalls"`
	Net       verifsimnet.Profile `json:"net"`
	// Stdout: no outfile; the result tables go to stdout and the LAST table
	// printed is the final result (the periodic and the final report share the
	// printing path)
	Stdout bool `json:"stdout,omitempty"`
	// Broken: that many files among the readable ones pass the glob and the
	// permission check but cannot be read (an empty or cut-off .gz, as during
	// log rotation): they contribute no line, and the run ends all the same
	Broken []string `json:"broken,omitempty"`
	// HoldCommandsMs: counterfactual of the late-command finding (see c02.go)
	HoldCommandsMs int `json:"hold_commands_ms,omitempty"`
}

func (sc *C06Scenario) line(f, n int) string {
	return fmt.Sprintf("g=G%d|n=%d|f=%d|i=%d", (n+f)%sc.Groups, (n*7+f)%11, f, n)
}

func (sc *C06Scenario) content(f int) []byte {
	var b bytes.Buffer
	for n := 1; n <= sc.Files[f]; n++ {
		b.WriteString(sc.line(f, n))
		b.WriteByte('\n')
	}
	return b.Bytes()
}

var c06Sizes = []int{0, 1, 3, 99, 100, 101, 400, 10, 30}

func c06Gen(r *Rand, tier string, i int) Scenario {
	sc := &C06Scenario{}
	sc.Sched = GenSched(r)
	if r.Bool(0.5) {
		sc.Sched.BiasSites = []string{"mapr/server/aggregate.go", "server/handlers/readcommand.go", "mapr/globalgroupset.go", "mapr/client/aggregate.go"}
		sc.Sched.BiasP = PickOf(r, 0.1, 0.3, 0.6)
	}
	sc.Transport = PickOf(r, "serverless", "ssh", "ssh")
	sc.Hosts = 1
	if sc.Transport == "ssh" {
		sc.Hosts = PickOf(r, 1, 2, 3, 5, 8, 12)
		if tier == "thorough" && r.Bool(0.05) {
			sc.Hosts = PickOf(r, 20, 40)
		}
	}
	sc.Cfg.MaxCats = PickOf(r, 1, 2, 2, 3)
	sc.Groups = PickOf(r, 1, 3, 7)
	sc.Interval = PickOf(r, 1, 2, 5)
	nf := PickOf(r, 1, 1, 2, 3, 4, 8)
	if sc.Hosts > 5 && nf > 3 {
		nf = 3
	}
	for f := 0; f < nf; f++ {
		s := c06Sizes[r.Intn(len(c06Sizes))]
		if sc.Hosts > 5 && s > 101 {
			s = 101
		}
		sc.Files = append(sc.Files, s)
	}
	many := false
	if r.Bool(0.06) {
		// more files than the aggregator's 100-slot channel queue: mostly tiny
		// files plus one big one, behind a small limiter
		many = true
		sc.Files = nil
		nm := PickOf(r, 105, 130, 200, 300)
		big := r.Intn(nm)
		for f := 0; f < nm; f++ {
			if f == big {
				sc.Files = append(sc.Files, PickOf(r, 400, 1500, 4000))
			} else {
				sc.Files = append(sc.Files, PickOf(r, 0, 1, 1, 1, 2))
			}
		}
		sc.Hosts = 1
		sc.Cfg.MaxCats = PickOf(r, 1, 2, 2, 3)
	}
	// how the files are named on the command line
	switch r.Intn(3) {
	case 0: // one glob: a single cat command
		sc.Commands = []string{"m/*.log"}
	case 1: // every file its own argument: one cat command per file
		for f := range sc.Files {
			sc.Commands = append(sc.Commands, fmt.Sprintf("m/f%d.log", f))
		}
	default:
		sc.Commands = []string{"m/*.log"}
	}
	if many {
		sc.Commands = []string{"m/*.log"}
	}
	if !many && r.Bool(0.1) {
		nb := PickOf(r, 1, 1, 2)
		for b := 0; b < nb; b++ {
			name := fmt.Sprintf("m/%s%d.log.gz", PickOf(r, "a", "f1x", "z"), b)
			sc.Broken = append(sc.Broken, name)
			if len(sc.Commands) != 1 || sc.Commands[0] != "m/*" {
				if sc.Commands[0] == "m/*.log" {
					sc.Commands = []string{"m/*"}
				} else {
					sc.Commands = append(sc.Commands, name)
				}
			}
		}
	}
	switch r.Intn(4) {
	case 0:
		sc.Stalls = append(sc.Stalls, StallSpec{Name: "reader.perline", Site: "io/fs/readfilelcontext.go", Suffix: "/ranged", From: 0, To: -1, DurMs: PickOf(r, 1, 5, 20)})
	case 1:
		sc.Stalls = append(sc.Stalls, StallSpec{Name: "aggregator", Site: "mapr/server/aggregate.go", Suffix: "/select", From: r.Intn(50), To: -1, DurMs: PickOf(r, 1, 10)})
	}
	if sc.Transport == "ssh" {
		sc.Net = genNetProfile(r)
		sc.Net.JitterMs = 0
		if sc.Net.ChunkMax > 0 && sc.Net.ChunkMax < 64 {
			sc.Net.ChunkMax = 1400
		}
		if r.Bool(0.5) {
			// all servers equally far away: their final batches arrive together
			sc.Net.LatencyMs = PickOf(r, 1, 10, 50)
		}
	}
	if !many && (r.Bool(0.03) || (tier == "thorough" && r.Bool(0.05))) {
		// many groups: every partial result is thousands of small AGGREGATE
		// messages (well over the 32 KiB read buffers of the transport), so that
		// read boundaries fall at arbitrary offsets inside and between messages
		sc.Groups = PickOf(r, 700, 1100)
		sc.Files = []int{PickOf(r, 1200, 1800)}
		sc.Commands = []string{"m/*.log"}
		sc.Transport = "ssh"
		sc.Hosts = PickOf(r, 1, 2, 3)
		sc.Interval = PickOf(r, 1, 5)
		sc.Stalls = nil
		if r.Bool(0.5) {
			sc.Stalls = []StallSpec{{Name: "client.slow-report", Site: "mapr/globalgroupset.go", Suffix: "", From: r.Intn(30), To: -1, DurMs: 1}}
		}
		sc.Net = genNetProfile(r)
		sc.Net.JitterMs = 0
		if sc.Net.ChunkMax > 0 && sc.Net.ChunkMax < 1400 {
			sc.Net.ChunkMax = 1400
		}
		return sc
	}
	if !many && r.Bool(0.25) {
		sc.Stdout = true
		if r.Bool(0.5) {
			// keep the session alive over several report intervals
			sc.Interval = 1
			sc.Stalls = []StallSpec{{Name: "reader.perline", Site: "io/fs/readfilelcontext.go", Suffix: "/ranged", From: 0, To: -1, DurMs: PickOf(r, 5, 20, 50)}}
			sc.Sched.BiasSites = []string{"clients/maprclient.go", "mapr/globalgroupset.go", "mapr/groupsetresult.go", "mapr/groupset.go"}
			sc.Sched.BiasP = PickOf(r, 0.3, 0.6)
		}
		if r.Bool(0.6) {
			// a slow client: taking or giving back the global result set's semaphore
			// takes a while for a few of the reports/merges (rendering a big table
			// or a busy machine), so report windows overlap other events in time
			from := r.Intn(12)
			sp := StallSpec{Name: "client.slow-report", Site: "mapr/globalgroupset.go", Suffix: "", From: from, To: from + PickOf(r, 2, 5, 20),
				DurMs: PickOf(r, 100, 400, 900)}
			if r.Bool(0.5) {
				// slow from some point on to the very end: a report is likely to be
				// under way when the last connection finishes
				sp.To, sp.DurMs = from+150, PickOf(r, 100, 300)
			}
			sc.Stalls = append(sc.Stalls, sp)
		}
		if r.Bool(0.5) {
			// the terminal is slow for one of the printed messages: the report that
			// prints it finishes late, possibly after the final report was started
			h := r.Intn(14)
			sc.Stalls = append(sc.Stalls, StallSpec{Name: "consumer.single", Site: siteStdoutLock, Suffix: "/lock", From: h, To: h + 1, DurMs: PickOf(r, 500, 1500, 3000)})
		}
	}
	return sc
}

// c06LastTable converts the last result table printed to stdout into the CSV
// form of the outfile ("no table" is reported like a missing outfile).
func c06LastTable(stdout []byte) ([]byte, error) {
	lines := strings.Split(string(stdout), "\n")
	hdr := -1
	for i, ln := range lines {
		if strings.HasPrefix(strings.TrimSpace(ln), "g |") {
			hdr = i
		}
	}
	if hdr < 0 {
		return nil, fmt.Errorf("no result table on stdout (%d bytes of output)", len(stdout))
	}
	var b strings.Builder
	b.WriteString("g,count(n),sum(n)\n")
	for _, ln := range lines[hdr+2:] {
		f := strings.Split(ln, "|")
		if len(f) != 3 {
			break
		}
		b.WriteString(strings.TrimSpace(f[0]) + "," + strings.TrimSpace(f[1]) + "," + strings.TrimSpace(f[2]) + "\n")
	}
	return []byte(b.String()), nil
}

type c06Totals struct {
	count, sum map[string]float64
}

func (sc *C06Scenario) expected() c06Totals {
	t := c06Totals{count: map[string]float64{}, sum: map[string]float64{}}
	for f := range sc.Files {
		for n := 1; n <= sc.Files[f]; n++ {
			g := fmt.Sprintf("G%d", (n+f)%sc.Groups)
			t.count[g] += float64(sc.Hosts)
			t.sum[g] += float64(sc.Hosts * ((n*7 + f) % 11))
		}
	}
	return t
}

func c06Run(t *testing.T, s Scenario, src verifsim.DecisionSource, keep bool) *RunResult {
	sc := s.(*C06Scenario)
	res := &RunResult{Info: map[string]any{}}
	var proc *ClientProc
	var csv []byte
	var csvErr error
	stalls := append([]StallSpec(nil), sc.Stalls...)
	if sc.HoldCommandsMs > 0 {
		stalls = append(stalls, StallSpec{Name: "command.hold", Site: siteCommandStart, Suffix: "/go", From: 0, To: -1, DurMs: sc.HoldCommandsMs})
	}
	total := 0
	for _, n := range sc.Files {
		total += n
	}
	bound := 120*time.Second + time.Duration(total*25)*time.Millisecond + time.Duration(sc.HoldCommandsMs)*time.Millisecond
	for _, sp := range sc.Stalls {
		if (sp.Name == "client.slow-report" || sp.Name == "consumer.single") && sp.To > sp.From {
			bound += time.Duration((sp.To-sp.From)*sp.DurMs) * time.Millisecond
		}
	}
	opts := RunOpts{Src: src, KeepLabels: keep, MaxFake: bound + 2*time.Minute, Stalls: stallRules(stalls)}
	if sc.Transport == "ssh" {
		np := sc.Net
		opts.Net = &np
	}
	res.Outcome = RunSim(t, opts, func(w *World) {
		for f := range sc.Files {
			w.WriteFile(fmt.Sprintf("m/f%d.log", f), sc.content(f))
		}
		for b, name := range sc.Broken {
			// empty, or the first bytes of a gzip stream only
			var content []byte
			if b%2 == 1 {
				content = compress("gz", []byte("g=G0|n=1|f=0|i=1\n"))[:7]
			}
			w.WriteFile(name, content)
		}
		out := w.Dir + "/out.csv"
		a := DefaultArgs()
		a.NoColor = true
		a.QueryStr = fmt.Sprintf("select g,count(n),sum(n) group by g interval %d logformat generickv outfile %s", sc.Interval, out)
		if sc.Stdout {
			a.QueryStr = fmt.Sprintf("select g,count(n),sum(n) group by g interval %d logformat generickv", sc.Interval)
		}
		var files []string
		for _, c := range sc.Commands {
			files = append(files, w.Data(c))
		}
		a.What = strings.Join(files, ",")
		if sc.Transport == "ssh" {
			var hosts []string
			for h := 0; h < sc.Hosts; h++ {
				hosts = append(hosts, fmt.Sprintf("srv%d", h+1))
			}
			a.SSHPrivateKeyFilePath = w.StartSSHWorld(hosts, sc.Cfg, nil)
			a.ServersStr = strings.Join(hosts, ",")
			a.TrustAllHosts = true
		} else {
			w.ConfigHook = sc.Cfg.apply
		}
		a.Mode = 5 // omode.MapClient
		proc = &ClientProc{Kind: "map", Args: a}
		w.RunClient(proc, sc.Transport == "ssh")
		if sc.Stdout {
			if dp := os.Getenv("VERIF_DUMP_STDOUT"); dp != "" {
				os.WriteFile(dp, w.Stdout(proc.StdoutCut), 0644)
			}
			csv, csvErr = c06LastTable(w.Stdout(proc.StdoutCut))
		} else {
			csv, csvErr = os.ReadFile(out)
		}
	})
	res.NonTrivial = total > 0 && (len(sc.Files) > 1 || sc.Hosts > 1)
	if res.Panic != "" {
		res.Class, res.Message = "panic", res.Panic
		return res
	}
	if res.Aborted != "" {
		if res.Aborted == "timecap" {
			res.Class, res.Message = "no-termination", fmt.Sprintf("the mapreduce client did not terminate within %v of simulated time", bound+2*time.Minute)
		}
		return res
	}
	if proc == nil || !proc.Exited {
		res.Class, res.Message = "no-exit", "client process did not exit"
		return res
	}
	if proc.Panic != "" {
		res.Class, res.Message = "client-panic", proc.Panic
		return res
	}
	exp := sc.expected()
	got := c06Totals{count: map[string]float64{}, sum: map[string]float64{}}
	if csvErr != nil {
		if total > 0 {
			res.Class, res.Message = "no-result", "no result file was written: "+csvErr.Error()
			return res
		}
	} else {
		lines := strings.Split(strings.TrimSpace(string(csv)), "\n")
		if len(lines) == 0 || lines[0] != "g,count(n),sum(n)" {
			res.Class, res.Message = "bad-result", fmt.Sprintf("unexpected result header %q", trunc(string(csv), 80))
			return res
		}
		for _, ln := range lines[1:] {
			f := strings.Split(ln, ",")
			if len(f) != 3 {
				res.Class, res.Message = "bad-result", fmt.Sprintf("unexpected result row %q", ln)
				return res
			}
			c, _ := strconv.ParseFloat(f[1], 64)
			sm, _ := strconv.ParseFloat(f[2], 64)
			got.count[f[0]] += c
			got.sum[f[0]] += sm
		}
	}
	var diffs []string
	var keys []string
	for g := range exp.count {
		keys = append(keys, g)
	}
	for g := range got.count {
		if _, ok := exp.count[g]; !ok {
			keys = append(keys, g)
		}
	}
	sort.Strings(keys)
	missing, extra := 0.0, 0.0
	for _, g := range keys {
		if exp.count[g] != got.count[g] || exp.sum[g] != got.sum[g] {
			diffs = append(diffs, fmt.Sprintf("%s: count %v (expected %v), sum %v (expected %v)", g, got.count[g], exp.count[g], got.sum[g], exp.sum[g]))
		}
		if d := exp.count[g] - got.count[g]; d > 0 {
			missing += d
		} else {
			extra -= d
		}
	}
	if len(diffs) > 0 {
		res.Class = "lines-not-accounted"
		if missing == 0 && extra > 0 {
			res.Class = "lines-counted-twice"
		}
		res.Message = fmt.Sprintf("%d servers x %d files %v (%d lines each server): %v lines missing, %v extra; %s",
			sc.Hosts, len(sc.Files), sc.Files, total, missing, extra, trunc(strings.Join(diffs, "; "), 300))
		return res
	}
	if proc.Status != 0 {
		res.Class, res.Message = "exit-status", fmt.Sprintf("exit status %d", proc.Status)
		return res
	}
	if proc.ExitFake > bound {
		res.Class, res.Message = "late-exit", fmt.Sprintf("client exited after %v of simulated time (bound %v)", proc.ExitFake, bound)
	}
	return res
}

func c06Shape(s Scenario) string {
	sc := s.(*C06Scenario)
	var st []string
	for _, sp := range sc.Stalls {
		st = append(st, fmt.Sprintf("%s@%d+%d", sp.Name, sp.From, sp.DurMs))
	}
	return fmt.Sprintf("%s/stdout=%v/h%d/cats%d/files%v/broken%d/cmds%d/g%d/i%d/%s/lat%d", sc.Transport, sc.Stdout, sc.Hosts, sc.Cfg.MaxCats, sc.Files, len(sc.Broken), len(sc.Commands), sc.Groups, sc.Interval,
		strings.Join(st, ","), sc.Net.LatencyMs)
}

func c06Sample(s Scenario) any {
	sc := s.(*C06Scenario)
	return map[string]any{"transport": sc.Transport, "servers": sc.Hosts, "max_cats": sc.Cfg.MaxCats, "lines_per_file": sc.Files, "file_arguments": sc.Commands,
		"groups": sc.Groups, "interval_s": sc.Interval, "result_to_stdout": sc.Stdout, "stalls": sc.Stalls, "net": sc.Net, "sched": sc.Sched}
}

func c06Clone(sc *C06Scenario) *C06Scenario {
	n := *sc
	n.Files = append([]int(nil), sc.Files...)
	n.Commands = append([]string(nil), sc.Commands...)
	n.Stalls = append([]StallSpec(nil), sc.Stalls...)
	return &n
}

func c06Shrink(s Scenario) []Scenario {
	sc := s.(*C06Scenario)
	var out []Scenario
	if sc.Hosts > 1 {
		n := c06Clone(sc)
		n.Hosts = sc.Hosts / 2
		out = append(out, n)
		n2 := c06Clone(sc)
		n2.Hosts = sc.Hosts - 1
		out = append(out, n2)
	}
	if len(sc.Files) > 1 && len(sc.Commands) == 1 {
		n := c06Clone(sc)
		n.Files = n.Files[:len(n.Files)-1]
		out = append(out, n)
	}
	if len(sc.Files) > 1 && len(sc.Commands) == len(sc.Files) {
		n := c06Clone(sc)
		n.Files = n.Files[:len(n.Files)-1]
		n.Commands = n.Commands[:len(n.Commands)-1]
		out = append(out, n)
	}
	for i, f := range sc.Files {
		if f > 0 {
			for _, nl := range []int{0, 1, f / 2} {
				if nl != f {
					n := c06Clone(sc)
					n.Files[i] = nl
					out = append(out, n)
				}
			}
		}
	}
	for i := range sc.Stalls {
		n := c06Clone(sc)
		n.Stalls = append(n.Stalls[:i], n.Stalls[i+1:]...)
		out = append(out, n)
	}
	if sc.Transport == "ssh" && sc.Hosts == 1 {
		n := c06Clone(sc)
		n.Transport = "serverless"
		out = append(out, n)
	}
	if sc.Groups > 1 {
		n := c06Clone(sc)
		n.Groups = 1
		out = append(out, n)
	}
	n := c06Clone(sc)
	n.Sched = SchedProfile{Mode: "fifo"}
	out = append(out, n)
	return out
}

func init() {
	Register(&Prop{
		ID:    "C06",
		Level: "exploration",
		Rule: "seeded generation of dmap runs (count and sum per group with totals known by construction): 1-12 servers (thorough: up to 40) or serverless, 1-8 files per server " +
			"named by one glob or one argument each, sizes {0,1,3,10,30,99,100,101,400} lines, MaxConcurrentCats 1-3 (below and above the number of files), interval 1/2/5 s, " +
			"equal link latency so that final batches arrive together, per-line reader stalls, aggregator stalls, schedule bias at the aggregator's channel-closed decision, the " +
			"re-queue goroutine, the limiter registration and the client's merge; non-trivial = lines > 0 and several files or servers; distinct = (scenario shape, schedule hash)",
		Real: []string{"internal/clients (MaprClient, periodic reporter)", "internal/clients/handlers (MaprHandler)", "internal/mapr (client + server aggregate, GlobalGroupSet, result writer)",
			"internal/server/handlers (mapCommand, readCommand)", "internal/server xN + x/crypto/ssh over simnet"},
		Stub:        []string{"cmd/dmap main replica", "all simulated servers read the same files (one file system): expected totals are multiplied by the number of servers"},
		Assumptions: []string{"result is read from the CSV outfile after the client exited"},
		New:         func() Scenario { return &C06Scenario{} },
		Gen:         c06Gen,
		Run:         c06Run,
		Shrink:      c06Shrink,
		Shape:       c06Shape,
		Sample:      c06Sample,
		Triggers: map[string]func(Scenario) (Scenario, bool){
			"later-command-after-aggregator-finished": func(s Scenario) (Scenario, bool) {
				sc := s.(*C06Scenario)
				if len(sc.Commands) < 2 || sc.HoldCommandsMs > 0 {
					return s, false
				}
				n := c06Clone(sc)
				n.HoldCommandsMs = 2000
				return n, true
			},
		},
	})
}
