package verifharness

import (
	"bytes"
	"fmt"
	gossh "golang.org/x/crypto/ssh"
	"sort"
	"strconv"
	"strings"
	"testing"
	"time"

	"github.com/mimecast/dtail/internal/verifsim"
	"github.com/mimecast/dtail/internal/verifsimnet"
)

// C02 — every selected line is delivered before the session closes, at any
// pace (DESIGN.md §5 C02).

// StallSpec holds goroutines parking at a site class for a while.
type StallSpec struct {
	Name   string `json:"name"`
	Site   string `json:"site"`   // substring of the site
	Suffix string `json:"suffix"` // required suffix ("/lock", "/go", ...)
	From   int    `json:"from"`   // first matching hit that stalls
	To     int    `json:"to"`     // first hit that no longer stalls (<0: never ends)
	DurMs  int    `json:"dur_ms"`
}

func (sp StallSpec) Rule() *verifsim.StallRule {
	return &verifsim.StallRule{Name: sp.Name, Match: func(site string, hit int, g *verifsim.G) time.Duration {
		if !strings.Contains(site, sp.Site) || !strings.HasSuffix(site, sp.Suffix) {
			return 0
		}
		if hit >= sp.From && (sp.To < 0 || hit < sp.To) {
			return time.Duration(sp.DurMs) * time.Millisecond
		}
		return -1
	}}
}

func stallRules(sps []StallSpec) []*verifsim.StallRule {
	var out []*verifsim.StallRule
	for _, sp := range sps {
		out = append(out, sp.Rule())
	}
	return out
}

// Sites (resolved against the instrumented tree by substring + suffix).
const (
	siteStdoutLock   = "io/dlog/loggers/stdout.go"        // + "/lock": the consumer (terminal / pipe)
	siteSendCommand  = "clients/handlers/basehandler.go"  // + "/select": SendMessage of a command
	siteCommandStart = "server/handlers/serverhandler.go" // + "/go": goroutine running one command
)

type C02File struct {
	Dir   string `json:"dir"`
	Lines int    `json:"lines"`
	// NoFinalNL: the last line has no newline (the reader hands it over at EOF)
	NoFinalNL bool `json:"no_final_nl,omitempty"`
	// Compress: stored as f<i>.log.<Compress> (gz | zst); globs are dir/*
	Compress string `json:"compress,omitempty"`
	// Pad: extra bytes per line (the "big output" family: more than the 2 MiB
	// SSH channel window, so that a stalled client blocks the SERVER's writes)
	Pad int `json:"pad,omitempty"`
}

func (f C02File) name(i int) string {
	n := fmt.Sprintf("%s/f%d.log", f.Dir, i)
	if f.Compress != "" {
		n += "." + f.Compress
	}
	return n
}

type C02Scenario struct {
	ScenarioBase
	Transport string              `json:"transport"`
	Kind      string              `json:"kind"` // cat | grep
	Plain     bool                `json:"plain"`
	Cfg       ServerCfg           `json:"cfg"`
	Files     []C02File           `json:"files"`            // file i is data/<dir>/f<i>.log
	Commands  []string            `json:"commands"`         // globs or paths, relative to data/
	KeepEvery int                 `json:"keep_every"`       // grep: line n is selected iff n % KeepEvery == 0
	Before    int                 `json:"before,omitempty"` // grep context options (exercise the context filter and its early abort under back-pressure)
	After     int                 `json:"after,omitempty"`
	Max       int                 `json:"max,omitempty"`
	Stalls    []StallSpec         `json:"stalls"`
	Net       verifsimnet.Profile `json:"net"`
	// HoldCommandsMs holds every command goroutine at its start (used only by
	// the counterfactual of finding F-C02-premature-shutdown).
	HoldCommandsMs int `json:"hold_commands_ms,omitempty"`
	// Died (SSH): that many earlier sessions of the same user were cut off
	// (connection reset) in the middle of a read before this session starts;
	// whatever they held of the server's read slots must be free again
	Died int `json:"died,omitempty"`
}

func c02Line(file, n int, keep bool, pad int) string {
	m := "D"
	if keep {
		m = "K"
	}
	return fmt.Sprintf("L%d:%d:%s:%s", file, n, m, strings.Repeat("x", pad))
}

func (sc *C02Scenario) keep(n int) bool {
	if sc.Kind != "grep" {
		return true
	}
	return sc.KeepEvery <= 1 || n%sc.KeepEvery == 0
}

func (sc *C02Scenario) fileContent(i int) []byte {
	var b bytes.Buffer
	for n := 1; n <= sc.Files[i].Lines; n++ {
		b.WriteString(c02Line(i, n, sc.keep(n), (n*7+i)%23+sc.Files[i].Pad))
		if n < sc.Files[i].Lines || !sc.Files[i].NoFinalNL {
			b.WriteByte('\n')
		}
	}
	return compress(sc.Files[i].Compress, b.Bytes())
}

// wanted returns the line numbers of file i that must be delivered.
func (sc *C02Scenario) wanted(i int) []int {
	n := sc.Files[i].Lines
	if sc.Kind != "grep" || (sc.Before == 0 && sc.After == 0 && sc.Max == 0) {
		var out []int
		for k := 1; k <= n; k++ {
			if sc.keep(k) {
				out = append(out, k)
			}
		}
		return out
	}
	sel := make([]bool, n)
	for k := 1; k <= n; k++ {
		sel[k-1] = sc.keep(k)
	}
	var out []int
	for _, idx := range refGrep(sel, sc.Before, sc.After, sc.Max) {
		out = append(out, idx+1)
	}
	return out
}

func (sc *C02Scenario) selectedTotal() int {
	if sc.Kind == "grep" && (sc.Before != 0 || sc.After != 0 || sc.Max != 0) {
		t := 0
		for i := range sc.Files {
			t += len(sc.wanted(i))
		}
		return t
	}
	return sc.selectedTotalPlain()
}

func (sc *C02Scenario) selectedTotalPlain() int {
	t := 0
	for i := range sc.Files {
		for n := 1; n <= sc.Files[i].Lines; n++ {
			if sc.keep(n) {
				t++
			}
		}
	}
	return t
}

var c02Sizes = []int{0, 1, 9, 10, 11, 99, 100, 101, 250, 1000, 3, 50, 150}

func c02Gen(r *Rand, tier string, i int) Scenario {
	sc := &C02Scenario{}
	sc.Sched = GenSched(r)
	if r.Bool(0.5) {
		sc.Sched.BiasSites = []string{"server/handlers/basehandler.go", "server/handlers/serverhandler.go"}
		sc.Sched.BiasP = PickOf(r, 0.1, 0.5)
	}
	sc.Transport = PickOf(r, "serverless", "serverless", "ssh")
	sc.Kind = PickOf(r, "cat", "cat", "grep")
	sc.Plain = r.Bool(0.7)
	sc.KeepEvery = PickOf(r, 1, 2, 3, 10)
	if sc.Kind == "grep" && r.Bool(0.4) {
		sc.Before, sc.After, sc.Max = PickOf(r, 0, 0, 1, 3), PickOf(r, 0, 0, 1, 2), PickOf(r, 0, 0, 1, 5, 40)
	}
	sc.Cfg.MaxCats = PickOf(r, 1, 2, 2, 3)
	// commands: 1..4, each one file or a glob over 1..4 files
	ncmd := PickOf(r, 1, 1, 1, 2, 3, 4)
	for c := 0; c < ncmd; c++ {
		dir := fmt.Sprintf("d%d", c)
		nf := 1
		glob := r.Bool(0.4)
		if glob {
			nf = r.Range(1, 4)
		}
		first := len(sc.Files)
		for k := 0; k < nf; k++ {
			size := c02Sizes[r.Intn(len(c02Sizes))]
			if tier == "quick" && size == 1000 && r.Bool(0.5) {
				size = 250
			}
			sc.Files = append(sc.Files, C02File{Dir: dir, Lines: size, Compress: PickOf(r, "", "", "", "", "gz", "zst")})
		}
		if glob {
			sc.Commands = append(sc.Commands, dir+"/*")
		} else {
			sc.Commands = append(sc.Commands, sc.Files[first].name(first))
		}
	}
	// an unterminated last line: in plain mode only for a single file (the
	// output of several files would legitimately run two lines together)
	for k := range sc.Files {
		if (!sc.Plain || len(sc.Files) == 1) && r.Bool(0.3) {
			sc.Files[k].NoFinalNL = true
		}
	}
	total := sc.selectedTotal()
	hits := total
	if sc.Plain {
		hits = 2 * total // the client prints the line and an empty message per line
	}
	switch r.Intn(6) {
	case 0, 1: // fast consumer
	case 2:
		sc.Stalls = append(sc.Stalls, StallSpec{Name: "consumer.uniform", Site: siteStdoutLock, Suffix: "/lock", From: 0, To: -1,
			DurMs: PickOf(r, 1, 1, 20)})
	default:
		k := PickOf(r, 0, 1, 2, 5, 20, 99, 100, 101, 120, 200, 195+r.Intn(12), 195+r.Intn(12))
		if sc.Plain && r.Bool(0.5) {
			k *= 2 // two messages per line in plain mode
		}
		h := hits - 1 - k
		if h < 0 {
			h = 0
		}
		sc.Stalls = append(sc.Stalls, StallSpec{Name: "consumer.single", Site: siteStdoutLock, Suffix: "/lock", From: h, To: h + 1,
			DurMs: PickOf(r, 50, 150, 150, 1000, 3100, 6000)})
	}
	if r.Bool(0.08) {
		// boundary sweep: one file a little longer than the two 100-slot queues,
		// last line unterminated, and one long consumer pause placed so that the
		// reader sits at (or one line around) EOF with every queue exactly full
		sc.Kind, sc.Before, sc.After, sc.Max, sc.KeepEvery = "cat", 0, 0, 0, 1
		L := r.Range(203, 260)
		sc.Files = []C02File{{Dir: "d0", Lines: L, NoFinalNL: r.Bool(0.7), Compress: PickOf(r, "", "", "gz")}}
		sc.Commands = []string{sc.Files[0].name(0)}
		per := 1
		if sc.Plain {
			per = 2
		}
		h := (L-215+r.Intn(26))*per + r.Intn(per)
		if h < 0 {
			h = 0
		}
		sc.Stalls = []StallSpec{{Name: "consumer.single", Site: siteStdoutLock, Suffix: "/lock", From: h, To: h + 1, DurMs: PickOf(r, 2900, 3100, 3100, 6100)}}
		ncmd = 1
	}
	if (tier == "thorough" && r.Bool(0.06)) || (tier != "thorough" && r.Bool(0.05)) {
		// big output over SSH: about 2.7 MB, more than the 2 MiB channel window,
		// read against a client that pauses for seconds; the server's writes
		// block, its queues fill, flush and the close handshake run under
		// back-pressure
		sc.Transport, sc.Kind, sc.Before, sc.After, sc.Max, sc.KeepEvery = "ssh", "cat", 0, 0, 0, 1
		L := r.Range(880, 960)
		sc.Files = []C02File{{Dir: "d0", Lines: L, Pad: 3000, NoFinalNL: r.Bool(0.3)}}
		sc.Commands = []string{sc.Files[0].name(0)}
		per := 1
		if sc.Plain {
			per = 2
		}
		// offsets around 697 lines (2 MiB / line size): the stall begins when what is
		// left exceeds the channel window by about one message
		off := PickOf(r, 1, 50, 210, 400, 680, 720, 0, 0, 0, 0, 0, 0)
		dur := PickOf(r, 1000, 3100, 6100, 12000)
		if off == 0 {
			off, dur = 690+r.Intn(16), PickOf(r, 5100, 6100, 12000) // longer than the 5 s close-handshake timeout
		}
		h := (L - off) * per
		sc.Stalls = []StallSpec{{Name: "consumer.single", Site: siteStdoutLock, Suffix: "/lock", From: h, To: h + 1, DurMs: dur}}
		if r.Bool(0.5) {
			sc.Stalls = append(sc.Stalls, StallSpec{Name: "consumer.single", Site: siteStdoutLock, Suffix: "/lock", From: 20 * per, To: 20*per + 1, DurMs: PickOf(r, 3100, 6100)})
		}
		ncmd = 1
	}
	if r.Bool(0.04) {
		// very long lines (beyond 64 KiB, below the default MaxLineLength of
		// 1 MiB): a line is handed to the transport in several pieces
		sc.Kind, sc.Before, sc.After, sc.Max, sc.KeepEvery = "cat", 0, 0, 0, 1
		sc.Files = []C02File{{Dir: "d0", Lines: r.Range(2, 6), Pad: PickOf(r, 65400+r.Intn(300), 70000, 140000), NoFinalNL: r.Bool(0.3)}}
		sc.Commands = []string{sc.Files[0].name(0)}
		sc.Stalls = nil
		ncmd = 1
	}
	if sc.Transport == "ssh" && r.Bool(0.12) {
		sc.Died = r.Range(1, sc.Cfg.MaxCats+1)
	}
	if ncmd > 1 && r.Bool(0.4) {
		sc.Stalls = append(sc.Stalls, StallSpec{Name: "command.delay", Site: siteSendCommand, Suffix: "/select", From: 1, To: -1,
			DurMs: PickOf(r, 1, 50, 500)})
	}
	if sc.Transport == "ssh" {
		sc.Net = genNetProfile(r)
		if sc.Net.ChunkMax > 0 && sc.Net.ChunkMax < 64 {
			sc.Net.ChunkMax = 1400
		}
		if len(sc.Files) > 0 && sc.Files[0].Pad > 0 && sc.Net.ChunkMax > 0 && sc.Net.ChunkMax < 4096 {
			sc.Net.ChunkMax = 4096
		}
	}
	return sc
}

func (sc *C02Scenario) stallBudget() time.Duration {
	var d time.Duration
	hits := 2*sc.selectedTotal() + 20
	for _, sp := range sc.Stalls {
		n := 1
		if sp.To < 0 {
			n = hits
			if sp.Site == siteSendCommand {
				n = len(sc.Commands)
			}
		} else {
			n = sp.To - sp.From
		}
		d += time.Duration(n*sp.DurMs) * time.Millisecond
	}
	d += time.Duration(sc.HoldCommandsMs) * time.Millisecond
	return d
}

func c02Run(t *testing.T, s Scenario, src verifsim.DecisionSource, keep bool) *RunResult {
	sc := s.(*C02Scenario)
	res := &RunResult{Info: map[string]any{}}
	var proc *ClientProc
	var stdout []byte
	stalls := append([]StallSpec(nil), sc.Stalls...)
	if sc.HoldCommandsMs > 0 {
		stalls = append(stalls, StallSpec{Name: "command.hold", Site: siteCommandStart, Suffix: "/go", From: 0, To: -1, DurMs: sc.HoldCommandsMs})
	}
	if sc.Died > 0 && sc.Transport == "ssh" {
		// the first lines read on this server (they belong to the sessions that die)
		// take 50 ms each, so that the reset lands in the middle of a read
		stalls = append(stalls, StallSpec{Name: "victim.slow-read", Site: "io/fs/readfilelcontext.go", Suffix: "/ranged", From: 0, To: 3 * sc.Died, DurMs: 50})
	}
	bound := sc.stallBudget() + 60*time.Second
	opts := RunOpts{Src: src, KeepLabels: keep, MaxFake: bound + 2*time.Minute, Stalls: stallRules(stalls)}
	if sc.Transport == "ssh" {
		np := sc.Net
		opts.Net = &np
	}
	res.Outcome = RunSim(t, opts, func(w *World) {
		for i, f := range sc.Files {
			w.WriteFile(f.name(i), sc.fileContent(i))
		}
		spec := ReadSpec{Kind: sc.Kind, Transport: sc.Transport, Plain: sc.Plain, NoColor: true, Files: sc.Commands}
		if sc.Kind == "grep" {
			spec.Regex = ":K:"
			spec.Before, spec.After, spec.Max = sc.Before, sc.After, sc.Max
		}
		keyPath := ""
		if sc.Transport == "ssh" {
			spec.Hosts = []string{"srv1"}
			keyPath = w.StartSSHWorld(spec.Hosts, sc.Cfg, nil)
			if sc.Died > 0 {
				var b bytes.Buffer
				for n := 1; n <= 40; n++ {
					fmt.Fprintf(&b, "victim line %d\n", n)
				}
				w.WriteFile("died.log", b.Bytes())
				for k := 0; k < sc.Died; k++ {
					rs := w.RawDial(fmt.Sprintf("died%d", k), "srv1", simUser, []gossh.AuthMethod{gossh.PublicKeys(Key(0).Signer)}, 5*time.Second)
					if rs.DialErr == nil && rs.Shell() == nil {
						rs.Command(CatCommand("cat", w.Data("died.log"), ""))
						w.Sleep(120 * time.Millisecond)
						rs.Conn.Reset()
						w.Sim.Fault("session.cut-off-mid-read")
					}
				}
				w.Sleep(300 * time.Millisecond)
			}
		} else {
			w.ConfigHook = sc.Cfg.apply
		}
		proc = w.MakeReadClient(spec, keyPath)
		w.RunClient(proc, sc.Transport == "ssh")
		stdout = w.Stdout(proc.StdoutCut)
	})
	res.NonTrivial = sc.selectedTotal() > 0 && (len(sc.Stalls) > 0 || len(sc.Files) > 1 || res.Choices > 0)
	if len(sc.Files) > 0 && sc.Files[0].Pad > 0 {
		res.Probes = addProbe(res.Probes, "big-output-over-ssh", 1)
	}
	if res.Panic != "" {
		res.Class, res.Message = "panic", res.Panic
		return res
	}
	if res.Aborted != "" {
		if res.Aborted == "timecap" {
			res.Class, res.Message = "no-termination", fmt.Sprintf("client did not exit by itself within %v of simulated time", bound+2*time.Minute)
		}
		return res
	}
	if proc == nil || !proc.Exited {
		res.Class, res.Message = "no-exit", "client process did not exit"
		return res
	}
	if proc.Panic != "" {
		res.Class, res.Message = "client-panic", proc.Panic
		return res
	}
	if cls, msg := c02Oracle(sc, stdout); cls != "" {
		res.Class, res.Message = cls, msg
		return res
	}
	if proc.Status != 0 {
		res.Class, res.Message = "exit-status", fmt.Sprintf("exit status %d", proc.Status)
		return res
	}
	if proc.ExitFake > bound {
		res.Class, res.Message = "late-exit", fmt.Sprintf("client exited after %v of simulated time (bound %v)", proc.ExitFake, bound)
	}
	res.Info["exit_ms"] = int64(proc.ExitFake / time.Millisecond)
	return res
}

// c02Oracle: per file the selected tagged lines appear exactly once and in
// file order; nothing else appears.
func c02Oracle(sc *C02Scenario, stdout []byte) (string, string) {
	got := map[int][]int{}
	lines := bytes.Split(stdout, []byte("\n"))
	if len(lines) > 0 && len(lines[len(lines)-1]) == 0 {
		lines = lines[:len(lines)-1]
	}
	for _, ln := range lines {
		s := string(ln)
		// diagnostics are not forbidden by C02 (C01 owns byte-exactness)
		if strings.HasPrefix(s, "CLIENT|") || strings.HasPrefix(s, "SERVER|") {
			continue
		}
		if !sc.Plain {
			parts := strings.SplitN(s, "|", 6)
			if len(parts) != 6 || parts[0] != "REMOTE" {
				return "stray-output", fmt.Sprintf("unexpected output line %q", trunc(s, 100))
			}
			s = parts[5]
		}
		f := strings.SplitN(s, ":", 4)
		if len(f) != 4 || !strings.HasPrefix(f[0], "L") {
			return "stray-output", fmt.Sprintf("unexpected output line %q", trunc(s, 100))
		}
		fi, e1 := strconv.Atoi(f[0][1:])
		n, e2 := strconv.Atoi(f[1])
		if e1 != nil || e2 != nil || fi < 0 || fi >= len(sc.Files) {
			return "stray-output", fmt.Sprintf("unexpected output line %q", trunc(s, 100))
		}
		if want := c02Line(fi, n, sc.keep(n), (n*7+fi)%23+sc.Files[fi].Pad); want != s {
			return "line-altered", fmt.Sprintf("line %q differs from the file's line %q", trunc(s, 100), want)
		}
		got[fi] = append(got[fi], n)
	}
	var problems []string
	for i, f := range sc.Files {
		want := sc.wanted(i)
		g := got[i]
		if len(g) == len(want) {
			same := true
			for k := range g {
				if g[k] != want[k] {
					same = false
				}
			}
			if same {
				continue
			}
		}
		// classify
		seen := map[int]int{}
		for _, n := range g {
			seen[n]++
		}
		missing, dup := 0, 0
		firstMissing := -1
		for _, n := range want {
			if seen[n] == 0 {
				missing++
				if firstMissing < 0 {
					firstMissing = n
				}
			}
			if seen[n] > 1 {
				dup++
			}
		}
		ordered := sort.IntsAreSorted(g)
		problems = append(problems, fmt.Sprintf("file %d (%d lines, %d selected): got %d lines, missing %d (first missing n=%d), duplicated %d, in order: %v",
			i, f.Lines, len(want), len(g), missing, firstMissing, dup, ordered))
	}
	if len(problems) > 0 {
		cls := "lines-lost"
		if strings.Contains(strings.Join(problems, " "), "missing 0") && !strings.Contains(strings.Join(problems, " "), "missing 1") {
			cls = "lines-wrong"
		}
		return cls, strings.Join(problems, "; ")
	}
	return "", ""
}

func c02Shape(s Scenario) string {
	sc := s.(*C02Scenario)
	var sz []string
	for _, f := range sc.Files {
		x := strconv.Itoa(f.Lines) + f.Compress
		if f.Pad > 0 {
			x += "+" + strconv.Itoa(f.Pad)
		}
		if f.NoFinalNL {
			x += "!"
		}
		sz = append(sz, x)
	}
	var st []string
	for _, sp := range sc.Stalls {
		st = append(st, fmt.Sprintf("%s@%d+%dms", sp.Name, sp.From, sp.DurMs))
	}
	return fmt.Sprintf("%s/%s/plain=%v/cats=%d/cmds=%d/files=%s/stalls=%s/ctx%d,%d,%d", sc.Transport, sc.Kind, sc.Plain, sc.Cfg.MaxCats,
		len(sc.Commands), strings.Join(sz, ","), strings.Join(st, ","), sc.Before, sc.After, sc.Max)
}

func c02Sample(s Scenario) any {
	sc := s.(*C02Scenario)
	return map[string]any{"transport": sc.Transport, "kind": sc.Kind, "plain": sc.Plain, "max_cats": sc.Cfg.MaxCats,
		"files": sc.Files, "commands": sc.Commands, "keep_every": sc.KeepEvery, "before": sc.Before, "after": sc.After, "max": sc.Max, "stalls": sc.Stalls, "net": sc.Net, "sched": sc.Sched}
}

func c02Clone(sc *C02Scenario) *C02Scenario {
	n := *sc
	n.Files = append([]C02File(nil), sc.Files...)
	n.Commands = append([]string(nil), sc.Commands...)
	n.Stalls = append([]StallSpec(nil), sc.Stalls...)
	return &n
}

func c02Shrink(s Scenario) []Scenario {
	sc := s.(*C02Scenario)
	var out []Scenario
	// drop a stall
	for i := range sc.Stalls {
		n := c02Clone(sc)
		n.Stalls = append(n.Stalls[:i], n.Stalls[i+1:]...)
		out = append(out, n)
	}
	// shrink files
	for i, f := range sc.Files {
		if f.NoFinalNL {
			n := c02Clone(sc)
			n.Files[i].NoFinalNL = false
			out = append(out, n)
		}
		if f.Lines > 0 {
			for _, nl := range []int{0, f.Lines / 2, f.Lines - 1} {
				if nl != f.Lines {
					n := c02Clone(sc)
					n.Files[i].Lines = nl
					out = append(out, n)
				}
			}
		}
	}
	if sc.Transport == "ssh" {
		n := c02Clone(sc)
		n.Transport = "serverless"
		out = append(out, n)
		n2 := c02Clone(sc)
		n2.Net = verifsimnet.Profile{}
		out = append(out, n2)
	}
	if sc.Kind == "grep" {
		n := c02Clone(sc)
		n.Kind = "cat"
		out = append(out, n)
	}
	if sc.Sched.Mode != "fifo" || sc.Sched.SwitchP != 0 || len(sc.Sched.BiasSites) > 0 {
		n := c02Clone(sc)
		n.Sched = SchedProfile{Mode: "fifo"}
		out = append(out, n)
	}
	return out
}

// Counterfactual of F-C02-premature-shutdown: the trigger is "a later command
// of the session arrives after an earlier one has finished". Removed by
// dropping inter-command delays and holding every command goroutine at its
// start for 2 simulated seconds, so that all commands have arrived before
// any can finish. Nothing else of the scenario changes.
func c02TrigPrematureShutdown(s Scenario) (Scenario, bool) {
	sc := s.(*C02Scenario)
	if len(sc.Commands) < 2 || sc.HoldCommandsMs > 0 {
		return s, false
	}
	n := c02Clone(sc)
	n.HoldCommandsMs = 2000
	var st []StallSpec
	for _, sp := range n.Stalls {
		if sp.Site != siteSendCommand {
			st = append(st, sp)
		}
	}
	n.Stalls = st
	return n, true
}

func init() {
	Register(&Prop{
		ID:    "C02",
		Level: "exploration",
		Rule: "seeded generation of cat/grep sessions: 1-4 commands (paths or globs over 1-4 files), file sizes around the queue capacities " +
			"{0,1,9,10,11,99,100,101,250,1000}, MaxConcurrentCats 1-3, serverless/SSH, consumer pacing (fast, uniform 1/20 ms per message, single stalls " +
			"of 50 ms-6 s placed k messages before the end), delays between commands, schedule profiles biased to the shutdown path; " +
			"non-trivial = at least one selected line and (a stall, several files or a non-default decision); distinct = (scenario shape, schedule hash)",
		Real: []string{"internal/clients", "internal/clients/connectors (serverless + SSH)", "internal/server", "internal/server/handlers", "internal/io/fs",
			"internal/io/dlog stdout logger", "x/crypto/ssh over simnet"},
		Stub: []string{"cmd/dcat, cmd/dgrep main replaced by a replica", "terminal/pipe consumer modelled as stalls at the stdout logger's lock", "TCP replaced by simnet"},
		Assumptions: []string{"the consumer can only delay the client at message granularity (stall at the logger lock)",
			"fake time advances only when no goroutine is runnable (infinitely fast CPU between stalls)"},
		New:    func() Scenario { return &C02Scenario{} },
		Gen:    c02Gen,
		Run:    c02Run,
		Shrink: c02Shrink,
		Shape:  c02Shape,
		Sample: c02Sample,
		Triggers: map[string]func(Scenario) (Scenario, bool){
			"later-command-after-earlier-finished": c02TrigPrematureShutdown,
		},
	})
}
