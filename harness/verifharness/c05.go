package verifharness

import (
	"bytes"
	"crypto/md5"
	"encoding/hex"
	"fmt"
	"math"
	"os"
	"sort"
	"strconv"
	"strings"
	"testing"
	"time"

	"github.com/mimecast/dtail/internal/verifsim"
	"github.com/mimecast/dtail/internal/verifsimnet"
)

// C05 — distributed mapreduce result equals central evaluation of the query
// (DESIGN.md §5 C05). The oracle below evaluates the *abstract* query over all
// records; it shares no code with dtail's mapr package.

type AQSel struct {
	Op    string `json:"op"` // "" (bare field = last) | count sum min max avg last len
	Field string `json:"field"`
}

func (s AQSel) Storage() string {
	if s.Op == "" {
		return s.Field
	}
	return s.Op + "(" + s.Field + ")"
}

type AQArg struct {
	Kind string  `json:"kind"` // field | float | string
	S    string  `json:"s,omitempty"`
	F    float64 `json:"f,omitempty"`
}

type AQCond struct {
	L  AQArg  `json:"l"`
	Op string `json:"op"`
	R  AQArg  `json:"r"`
}

type AQSet struct {
	Var   string   `json:"var"`
	Funcs []string `json:"funcs,omitempty"` // outermost first
	Arg   string   `json:"arg"`             // field name or literal
	Quote bool     `json:"quote,omitempty"` // literal given as "string"
}

type AQuery struct {
	Select    []AQSel  `json:"select"`
	Where     []AQCond `json:"where,omitempty"`
	Set       []AQSet  `json:"set,omitempty"`
	GroupBy   []string `json:"group_by,omitempty"`
	Order     string   `json:"order,omitempty"` // "" | order | rorder
	OrderItem int      `json:"order_item"`
	Limit     int      `json:"limit"` // -1: none
	Interval  int      `json:"interval"`
	LogFormat string   `json:"logformat"` // default | generickv | csv
	UseAnd    bool     `json:"use_and,omitempty"`
}

type C05Scenario struct {
	ScenarioBase
	Transport string              `json:"transport"`
	Hosts     int                 `json:"hosts"`
	NFiles    int                 `json:"n_files"`
	Cfg       ServerCfg           `json:"cfg"`
	Query     AQuery              `json:"query"`
	Records   []map[string]string `json:"records"` // field -> value; field "srv" names the owning server
	FileOf    []int               `json:"file_of"` // record i is stored in file FileOf[i]
	StallMs   int                 `json:"stall_ms"`
	Net       verifsimnet.Profile `json:"net"`
}

const c05Table = "STATS"

var c05CSVCols = []string{"srv", "id", "g", "h", "n", "m", "x"}

func (sc *C05Scenario) hostName(i int) string {
	if sc.Transport != "ssh" {
		return "clienthost"
	}
	return fmt.Sprintf("srv%d", i+1)
}

// render one record as a log line of the scenario's format
func (sc *C05Scenario) renderLine(rec map[string]string) string {
	switch sc.Query.LogFormat {
	case "csv":
		var v []string
		for _, c := range c05CSVCols {
			v = append(v, rec[c])
		}
		return strings.Join(v, ",")
	}
	var kv []string
	for _, c := range c05CSVCols {
		if val, ok := rec[c]; ok {
			kv = append(kv, c+"="+val)
		}
	}
	if sc.Query.LogFormat == "generickv" {
		return strings.Join(kv, "|")
	}
	return "INFO|20261004-101112|1|stats.go:56|8|13|7|0.21|471h0m21s|MAPREDUCE:" + c05Table + "|" + strings.Join(kv, "|")
}

func quoteArg(a AQArg) string {
	switch a.Kind {
	case "float":
		return strconv.FormatFloat(a.F, 'f', -1, 64)
	case "string":
		return "\"" + a.S + "\""
	}
	return a.S
}

// Render the abstract query as query text (documented grammar).
func (q *AQuery) Render(outfile, partition string) string {
	var sb strings.Builder
	sb.WriteString("select ")
	for i, s := range q.Select {
		if i > 0 {
			sb.WriteString(",")
		}
		sb.WriteString(s.Storage())
	}
	if q.LogFormat == "default" {
		sb.WriteString(" from " + c05Table)
	}
	conds := []string{}
	if partition != "" {
		conds = append(conds, partition)
	}
	for _, c := range q.Where {
		conds = append(conds, quoteArg(c.L)+" "+c.Op+" "+quoteArg(c.R))
	}
	if len(conds) > 0 {
		sep := ", "
		if q.UseAnd {
			sep = " and "
		}
		sb.WriteString(" where " + strings.Join(conds, sep))
	}
	if len(q.Set) > 0 {
		var ss []string
		for _, s := range q.Set {
			arg := s.Arg
			if s.Quote {
				arg = "\"" + arg + "\""
			}
			for i := len(s.Funcs) - 1; i >= 0; i-- {
				arg = s.Funcs[i] + "(" + arg + ")"
			}
			ss = append(ss, s.Var+" = "+arg)
		}
		sb.WriteString(" set " + strings.Join(ss, ", "))
	}
	if len(q.GroupBy) > 0 {
		sb.WriteString(" group by " + strings.Join(q.GroupBy, ","))
	}
	if q.Order != "" {
		sb.WriteString(" " + q.Order + " by " + q.Select[q.OrderItem].Storage())
	}
	if q.Limit >= 0 {
		sb.WriteString(fmt.Sprintf(" limit %d", q.Limit))
	}
	sb.WriteString(fmt.Sprintf(" interval %d", q.Interval))
	sb.WriteString(" outfile " + outfile)
	sb.WriteString(" logformat " + q.LogFormat)
	return sb.String()
}

// ---------------------------------------------------------------------------
// Reference evaluator

type refGroup struct {
	key     string
	samples int
	count   map[int]float64
	sum     map[int]float64
	min     map[int]float64
	max     map[int]float64
	has     map[int]bool     // numeric aggregate has at least one value
	vals    map[int][]string // values seen (last / len / bare)
}

func maskDigits(s string) string {
	b := []byte(s)
	for i, c := range b {
		if c >= '0' && c <= '9' {
			b[i] = '.'
		}
	}
	return string(b)
}

func md5hex(s string) string {
	h := md5.Sum([]byte(s))
	return hex.EncodeToString(h[:])
}

func argFloat(a AQArg, f map[string]string) (float64, bool) {
	if a.Kind == "float" {
		return a.F, true
	}
	v, ok := f[a.S]
	if !ok {
		return 0, false
	}
	x, err := strconv.ParseFloat(v, 64)
	if err != nil {
		return 0, false
	}
	return x, true
}

func argString(a AQArg, f map[string]string) (string, bool) {
	if a.Kind == "string" {
		return a.S, true
	}
	v, ok := f[a.S]
	return v, ok
}

func condHolds(c AQCond, f map[string]string) bool {
	switch c.Op {
	case "==", "!=", "<", "<=", ">", ">=":
		l, ok1 := argFloat(c.L, f)
		r, ok2 := argFloat(c.R, f)
		if !ok1 || !ok2 {
			return false
		}
		switch c.Op {
		case "==":
			return l == r
		case "!=":
			return l != r
		case "<":
			return l < r
		case "<=":
			return l <= r
		case ">":
			return l > r
		default:
			return l >= r
		}
	}
	l, ok1 := argString(c.L, f)
	r, ok2 := argString(c.R, f)
	if !ok1 || !ok2 {
		return false
	}
	switch c.Op {
	case "eq":
		return l == r
	case "ne":
		return l != r
	case "contains":
		return strings.Contains(l, r)
	case "ncontains", "lacks":
		return !strings.Contains(l, r)
	case "hasprefix":
		return strings.HasPrefix(l, r)
	case "nhasprefix":
		return !strings.HasPrefix(l, r)
	case "hassuffix":
		return strings.HasSuffix(l, r)
	case "nhassuffix":
		return !strings.HasSuffix(l, r)
	}
	return false
}

// evaluate returns the groups of the central evaluation.
func (q *AQuery) evaluate(records []map[string]string) map[string]*refGroup {
	groups := map[string]*refGroup{}
	groupBy := q.GroupBy
	if len(groupBy) == 0 {
		groupBy = []string{q.Select[0].Field}
	}
	for _, rec := range records {
		f := map[string]string{}
		for k, v := range rec {
			f[k] = v
		}
		ok := true
		for _, c := range q.Where {
			if !condHolds(c, f) {
				ok = false
				break
			}
		}
		if !ok {
			continue
		}
		for _, s := range q.Set {
			v, has := f[s.Arg]
			if !has || s.Quote {
				v = s.Arg
				if s.Quote {
					if fv, has2 := f[s.Arg]; has2 {
						v = fv // a quoted name that is also a field still resolves to the field
					}
				}
			}
			for i := len(s.Funcs) - 1; i >= 0; i-- {
				switch s.Funcs[i] {
				case "md5sum":
					v = md5hex(v)
				case "maskdigits":
					v = maskDigits(v)
				}
			}
			f[s.Var] = v
		}
		var kp []string
		for _, g := range groupBy {
			kp = append(kp, f[g])
		}
		key := strings.Join(kp, ",")
		grp := groups[key]
		if grp == nil {
			grp = &refGroup{key: key, count: map[int]float64{}, sum: map[int]float64{}, min: map[int]float64{}, max: map[int]float64{},
				has: map[int]bool{}, vals: map[int][]string{}}
			groups[key] = grp
		}
		added := false
		for i, s := range q.Select {
			v, has := f[s.Field]
			if !has {
				continue
			}
			switch s.Op {
			case "count":
				grp.count[i]++
				added = true
			case "", "last", "len":
				grp.vals[i] = append(grp.vals[i], v)
				added = true
			default:
				x, err := strconv.ParseFloat(v, 64)
				if err != nil {
					continue
				}
				added = true
				grp.sum[i] += x
				if !grp.has[i] || x < grp.min[i] {
					grp.min[i] = x
				}
				if !grp.has[i] || x > grp.max[i] {
					grp.max[i] = x
				}
				grp.has[i] = true
			}
		}
		if added {
			grp.samples++
		}
	}
	return groups
}

func near(a, b float64) bool {
	return math.Abs(a-b) <= 2e-6+1e-9*math.Max(math.Abs(a), math.Abs(b))
}

// rowMatches checks one result row against a reference group. Returns "" or a
// description of the mismatch.
func (q *AQuery) rowMatches(g *refGroup, row []string) string {
	for i, s := range q.Select {
		cell := row[i]
		switch s.Op {
		case "count":
			x, err := strconv.ParseFloat(cell, 64)
			if err != nil || x != g.count[i] {
				return fmt.Sprintf("%s = %q, expected %v", s.Storage(), cell, g.count[i])
			}
		case "sum", "min", "max", "avg":
			x, err := strconv.ParseFloat(cell, 64)
			if err != nil {
				return fmt.Sprintf("%s = %q is not a number", s.Storage(), cell)
			}
			var want float64
			switch s.Op {
			case "sum":
				want = g.sum[i]
			case "min":
				want = g.min[i]
			case "max":
				want = g.max[i]
			case "avg":
				if g.samples == 0 {
					continue
				}
				want = g.sum[i] / float64(g.samples)
			}
			if !g.has[i] && s.Op != "avg" && s.Op != "sum" {
				// no numeric value at all in this group: the column has no defined value
				continue
			}
			if !near(x, want) {
				return fmt.Sprintf("%s = %s, expected %f", s.Storage(), cell, want)
			}
		case "", "last":
			if len(g.vals[i]) == 0 {
				continue
			}
			ok := false
			for _, v := range g.vals[i] {
				if v == cell {
					ok = true
				}
			}
			if !ok {
				return fmt.Sprintf("%s = %q is not a value of this group (%d values)", s.Storage(), cell, len(g.vals[i]))
			}
		case "len":
			if len(g.vals[i]) == 0 {
				continue
			}
			x, err := strconv.ParseFloat(cell, 64)
			ok := false
			for _, v := range g.vals[i] {
				if err == nil && float64(len(v)) == x {
					ok = true
				}
			}
			if !ok {
				return fmt.Sprintf("%s = %q is not the length of a value of this group", s.Storage(), cell)
			}
		}
	}
	return ""
}

// orderKey is the numeric value a group is ordered by (as documented: the
// selected item's value; strings order as their numeric value, else 0).
func (q *AQuery) orderKey(g *refGroup) (float64, bool) {
	i := q.OrderItem
	s := q.Select[i]
	switch s.Op {
	case "count":
		return g.count[i], true
	case "sum":
		return g.sum[i], true
	case "min":
		return g.min[i], g.has[i]
	case "max":
		return g.max[i], g.has[i]
	case "avg":
		if g.samples == 0 {
			return 0, false
		}
		return g.sum[i] / float64(g.samples), true
	}
	return 0, false // last/len/bare: value dependent, not checked
}

// ---------------------------------------------------------------------------
// Generation

var c05Groups = []string{"A", "B", "C", "dd", "e9"}
var c05H = []string{"x1", "x22", "y", "z-9", "k77"}

func genC05Record(r *Rand, id int, hosts []string) map[string]string {
	rec := map[string]string{"srv": hosts[r.Intn(len(hosts))], "id": fmt.Sprintf("i%d", id)}
	rec["g"] = c05Groups[r.Intn(len(c05Groups))]
	if r.Bool(0.85) {
		rec["h"] = c05H[r.Intn(len(c05H))]
	}
	switch r.Intn(10) {
	case 0:
		rec["n"] = strconv.Itoa(-r.Intn(20))
	case 1:
		rec["n"] = fmt.Sprintf("%d.%d", r.Intn(50), PickOf(r, 5, 25, 125))
	default:
		rec["n"] = strconv.Itoa(r.Intn(100))
	}
	switch r.Intn(10) {
	case 0, 1: // missing
	case 2:
		rec["m"] = PickOf(r, "abc", "NaNx", "--", "1e")
	case 3:
		rec["m"] = strconv.Itoa(-1 - r.Intn(50))
	case 4:
		// more significant digits than a 32-bit float holds (epoch seconds, byte
		// counts): exact in the float64 arithmetic of the documented semantics
		rec["m"] = PickOf(r, "1633158729", "16777217", "123456.789", "2147483649", "-40000001", strconv.Itoa(1600000000+r.Intn(90000000)),
			// zero-padded decimals (a field of fixed width): 100, 250, 17 - not octal
			"0100", "0250", "0017", "00042")
	default:
		rec["m"] = strconv.Itoa(1 + r.Intn(1000))
	}
	if r.Bool(0.5) {
		rec["x"] = PickOf(r, "0", "1", "7", "3.5")
	}
	return rec
}

func genC05Query(r *Rand, format string) AQuery {
	q := AQuery{Limit: -1, Interval: PickOf(r, 1, 1, 2, 5), LogFormat: format, UseAnd: r.Bool(0.5)}
	// set clause first, so that variables can be grouped by / selected
	vars := []string{}
	if r.Bool(0.3) {
		switch r.Intn(4) {
		case 0:
			q.Set = append(q.Set, AQSet{Var: "$v", Funcs: []string{"maskdigits"}, Arg: "h"})
		case 1:
			q.Set = append(q.Set, AQSet{Var: "$v", Funcs: []string{"md5sum"}, Arg: "g"})
		case 2:
			q.Set = append(q.Set, AQSet{Var: "$v", Funcs: []string{"md5sum", "maskdigits"}, Arg: "h"})
		default:
			q.Set = append(q.Set, AQSet{Var: "$v", Arg: "g"})
		}
		vars = append(vars, "$v")
		if r.Bool(0.3) {
			q.Set = append(q.Set, AQSet{Var: "$c", Arg: "konst", Quote: r.Bool(0.5)})
		}
	}
	// group by
	gb := [][]string{{"g"}, {"g"}, {"h"}, {"g", "h"}, {}}
	q.GroupBy = append([]string(nil), gb[r.Intn(len(gb))]...)
	if len(vars) > 0 && r.Bool(0.6) {
		q.GroupBy = []string{vars[0]}
		if r.Bool(0.3) {
			q.GroupBy = append(q.GroupBy, "g")
		}
	}
	// select: group fields first (identify the row), then aggregates
	for _, g := range q.GroupBy {
		q.Select = append(q.Select, AQSel{Field: g})
	}
	if len(q.GroupBy) == 0 {
		q.Select = append(q.Select, AQSel{Field: "g"}) // implicit group by the first item's field
	}
	ops := []string{"count", "sum", "min", "max", "avg", "last", "len", "count", "sum"}
	fields := []string{"n", "n", "m", "m", "x", "id"}
	na := r.Range(1, 4)
	seen := map[string]bool{}
	for i := 0; i < na; i++ {
		s := AQSel{Op: ops[r.Intn(len(ops))], Field: fields[r.Intn(len(fields))]}
		if s.Op == "count" && r.Bool(0.3) {
			s.Field = PickOf(r, "id", "h", "g")
		}
		if (s.Op == "sum" || s.Op == "min" || s.Op == "max" || s.Op == "avg") && s.Field == "id" {
			s.Field = "n"
		}
		if seen[s.Storage()] {
			continue
		}
		seen[s.Storage()] = true
		q.Select = append(q.Select, s)
	}
	// where
	nw := PickOf(r, 0, 0, 1, 1, 2)
	for i := 0; i < nw; i++ {
		var c AQCond
		switch r.Intn(8) {
		case 0:
			c = AQCond{L: AQArg{Kind: "field", S: "n"}, Op: PickOf(r, ">", ">=", "<", "<=", "!=", "=="), R: AQArg{Kind: "float", F: float64(r.Intn(100))}}
		case 1:
			c = AQCond{L: AQArg{Kind: "float", F: float64(r.Intn(100))}, Op: PickOf(r, ">", "<", "<="), R: AQArg{Kind: "field", S: "n"}}
		case 2:
			c = AQCond{L: AQArg{Kind: "field", S: "m"}, Op: PickOf(r, ">", "<", ">="), R: AQArg{Kind: "field", S: "n"}}
		case 3:
			c = AQCond{L: AQArg{Kind: "field", S: "g"}, Op: PickOf(r, "eq", "ne"), R: AQArg{Kind: "string", S: c05Groups[r.Intn(len(c05Groups))]}}
		case 4:
			c = AQCond{L: AQArg{Kind: "field", S: "h"}, Op: PickOf(r, "contains", "ncontains", "lacks", "hasprefix", "nhasprefix", "hassuffix", "nhassuffix"),
				R: AQArg{Kind: "string", S: PickOf(r, "x", "7", "z", "2", "k")}}
		case 5:
			c = AQCond{L: AQArg{Kind: "string", S: PickOf(r, "A", "dd")}, Op: PickOf(r, "eq", "ne"), R: AQArg{Kind: "field", S: "g"}}
		case 6:
			c = AQCond{L: AQArg{Kind: "field", S: "m"}, Op: PickOf(r, ">", "<", "!="), R: AQArg{Kind: "float", F: PickOf(r, 0.0, 10.5, 500, -3)}}
		default:
			c = AQCond{L: AQArg{Kind: "field", S: "x"}, Op: "==", R: AQArg{Kind: "float", F: PickOf(r, 0.0, 1, 7, 3.5)}}
		}
		q.Where = append(q.Where, c)
	}
	// order / limit
	if r.Bool(0.4) {
		var cand []int
		for i, s := range q.Select {
			if s.Op == "count" || s.Op == "sum" || s.Op == "min" || s.Op == "max" || s.Op == "avg" {
				cand = append(cand, i)
			}
		}
		if len(cand) > 0 {
			q.Order = PickOf(r, "order", "rorder")
			q.OrderItem = cand[r.Intn(len(cand))]
			if r.Bool(0.5) {
				q.Limit = PickOf(r, 1, 2, 3, 10)
			}
		}
	}
	return q
}

func c05Gen(r *Rand, tier string, i int) Scenario {
	sc := &C05Scenario{}
	sc.Sched = GenSched(r)
	sc.Transport = PickOf(r, "serverless", "ssh", "ssh")
	sc.Hosts = 1
	if sc.Transport == "ssh" {
		sc.Hosts = PickOf(r, 1, 2, 3, 4)
	}
	format := PickOf(r, "default", "generickv", "generickv", "csv")
	sc.Query = genC05Query(r, format)
	sc.NFiles = PickOf(r, 1, 1, 2, 3)
	if format == "csv" {
		sc.NFiles = 1
	}
	sc.Cfg.MaxCats = 3
	var hosts []string
	for h := 0; h < sc.Hosts; h++ {
		hosts = append(hosts, sc.hostName(h))
	}
	n := PickOf(r, 0, 1, 5, 20, 60, 150, 300)
	if tier == "quick" && n == 300 {
		n = 150
	}
	for k := 0; k < n; k++ {
		rec := genC05Record(r, k, hosts)
		if format == "csv" {
			// positional format: every column has a value (possibly empty or non-numeric)
			for _, c := range c05CSVCols {
				if _, ok := rec[c]; !ok {
					rec[c] = ""
				}
			}
		}
		sc.Records = append(sc.Records, rec)
		sc.FileOf = append(sc.FileOf, r.Intn(sc.NFiles))
	}
	sc.StallMs = PickOf(r, 0, 0, 5, 20, 50)
	if sc.Transport == "ssh" {
		sc.Net = genNetProfile(r)
		sc.Net.JitterMs = 0
		if sc.Net.ChunkMax > 0 && sc.Net.ChunkMax < 64 {
			sc.Net.ChunkMax = 1400
		}
	}
	return sc
}

// ---------------------------------------------------------------------------

func c05Run(t *testing.T, s Scenario, src verifsim.DecisionSource, keep bool) *RunResult {
	sc := s.(*C05Scenario)
	res := &RunResult{Info: map[string]any{}}
	var proc *ClientProc
	var csv []byte
	var csvErr error
	var stalls []StallSpec
	if sc.StallMs > 0 {
		stalls = append(stalls, StallSpec{Name: "reader.perline", Site: "io/fs/readfilelcontext.go", Suffix: "/ranged", From: 0, To: -1, DurMs: sc.StallMs})
	}
	bound := 3*time.Minute + time.Duration(len(sc.Records)*sc.StallMs*2)*time.Millisecond
	opts := RunOpts{Src: src, KeepLabels: keep, MaxFake: bound + 2*time.Minute, Stalls: stallRules(stalls)}
	if sc.Transport == "ssh" {
		np := sc.Net
		opts.Net = &np
	}
	res.Outcome = RunSim(t, opts, func(w *World) {
		files := make([]bytes.Buffer, sc.NFiles)
		if sc.Query.LogFormat == "csv" {
			files[0].WriteString(strings.Join(c05CSVCols, ",") + "\n")
		}
		for i, rec := range sc.Records {
			b := &files[sc.FileOf[i]]
			b.WriteString(sc.renderLine(rec))
			b.WriteByte('\n')
			if sc.Query.LogFormat == "default" && i%7 == 3 {
				// decoys: another table, another severity
				b.WriteString("INFO|20261004-101112|1|x.go:1|8|13|7|0.21|1h|MAPREDUCE:OTHER|g=A|n=1000000\n")
				b.WriteString("WARN|20261004-101112|1|x.go:1|8|13|7|0.21|1h|something else entirely\n")
			}
		}
		for f := range files {
			w.WriteFile(fmt.Sprintf("q/f%d.log", f), files[f].Bytes())
		}
		out := w.Dir + "/res.csv"
		a := DefaultArgs()
		a.NoColor = true
		// each simulated server reads the same files and keeps the records
		// that belong to it (field srv equals its host name)
		a.QueryStr = sc.Query.Render(out, "srv eq $hostname")
		a.What = w.Data("q/*.log")
		a.Mode = 5
		if sc.Transport == "ssh" {
			var hosts []string
			for h := 0; h < sc.Hosts; h++ {
				hosts = append(hosts, sc.hostName(h))
			}
			a.SSHPrivateKeyFilePath = w.StartSSHWorld(hosts, sc.Cfg, nil)
			a.ServersStr = strings.Join(hosts, ",")
			a.TrustAllHosts = true
		} else {
			w.ConfigHook = sc.Cfg.apply
		}
		res.Info["query"] = a.QueryStr
		proc = &ClientProc{Kind: "map", Args: a}
		w.RunClient(proc, sc.Transport == "ssh")
		csv, csvErr = os.ReadFile(out)
	})
	groups := sc.Query.evaluate(sc.Records)
	res.NonTrivial = len(groups) > 1 && len(sc.Records) > 4
	if res.Panic != "" {
		res.Class, res.Message = "panic", res.Panic
		return res
	}
	if res.Aborted != "" {
		if res.Aborted == "timecap" {
			res.Class, res.Message = "no-termination", "the mapreduce client did not terminate within the simulated time bound"
		}
		return res
	}
	if proc == nil || !proc.Exited {
		res.Class, res.Message = "no-exit", "client process did not exit"
		return res
	}
	if proc.Panic != "" {
		res.Class, res.Message = "client-panic", proc.Panic
		return res
	}
	cls, msg := c05Compare(sc, groups, csv, csvErr)
	if cls != "" {
		res.Class, res.Message = cls, msg+" | query: "+fmt.Sprint(res.Info["query"])
	}
	return res
}

func c05Compare(sc *C05Scenario, groups map[string]*refGroup, csv []byte, csvErr error) (string, string) {
	q := &sc.Query
	// groups that contributed at least one sample must appear; groups without
	// any selected field may or may not (dtail does not transmit empty sets)
	mustHave := map[string]*refGroup{}
	for k, g := range groups {
		if g.samples > 0 {
			mustHave[k] = g
		}
	}
	if csvErr != nil {
		if len(mustHave) > 0 {
			return "no-result", "no result file was written: " + csvErr.Error()
		}
		return "", ""
	}
	lines := strings.Split(strings.TrimSuffix(string(csv), "\n"), "\n")
	var hdr []string
	for _, s := range q.Select {
		hdr = append(hdr, s.Storage())
	}
	if len(lines) == 0 || lines[0] != strings.Join(hdr, ",") {
		return "bad-header", fmt.Sprintf("result header %q, expected %q", trunc(lines[0], 100), strings.Join(hdr, ","))
	}
	groupBy := q.GroupBy
	nkey := len(groupBy)
	if nkey == 0 {
		nkey = 1
	}
	seen := map[string]bool{}
	var rowKeys []string
	for _, ln := range lines[1:] {
		if ln == "" {
			continue
		}
		cells := strings.Split(ln, ",")
		if len(cells) != len(q.Select) {
			return "bad-row", fmt.Sprintf("row %q has %d cells, expected %d", trunc(ln, 100), len(cells), len(q.Select))
		}
		key := strings.Join(cells[:nkey], ",")
		g := groups[key]
		if g == nil {
			return "unknown-group", fmt.Sprintf("row %q belongs to no group of the central evaluation", trunc(ln, 100))
		}
		if seen[key] {
			return "duplicate-group", fmt.Sprintf("group %q appears twice in the result", key)
		}
		seen[key] = true
		rowKeys = append(rowKeys, key)
		if m := q.rowMatches(g, cells); m != "" {
			return "value-differs", fmt.Sprintf("group %q: %s (row %q; group has %d samples)", key, m, trunc(ln, 100), g.samples)
		}
	}
	if q.Limit < 0 {
		for k := range mustHave {
			if !seen[k] {
				return "group-missing", fmt.Sprintf("group %q (%d samples) is missing from the result (%d rows)", k, mustHave[k].samples, len(rowKeys))
			}
		}
	} else {
		want := len(groups)
		if q.Limit < want {
			want = q.Limit
		}
		min := len(mustHave)
		if q.Limit < min {
			min = q.Limit
		}
		if len(rowKeys) > want || len(rowKeys) < min {
			return "limit-differs", fmt.Sprintf("result has %d rows; limit %d over %d groups (%d with samples)", len(rowKeys), q.Limit, len(groups), len(mustHave))
		}
	}
	if q.Order != "" {
		// returned rows must be ordered, and (with a limit) must be the top keys
		var got []float64
		for _, k := range rowKeys {
			v, ok := q.orderKey(groups[k])
			if !ok {
				return "", "" // order key undefined for a group: not checked
			}
			got = append(got, v)
		}
		for i := 1; i < len(got); i++ {
			if (q.Order == "order" && got[i-1] < got[i]-2e-6) || (q.Order == "rorder" && got[i-1] > got[i]+2e-6) {
				return "order-differs", fmt.Sprintf("rows are not in %s (order = descending, rorder = ascending): keys %v", q.Order, got)
			}
		}
		if q.Limit >= 0 && len(got) > 0 {
			var all []float64
			for k, g := range groups {
				// groups without samples are optional (dtail does not transmit empty
				// sets): they count only if the result actually contains them
				if g.samples == 0 && !seen[k] {
					continue
				}
				if v, ok := q.orderKey(g); ok {
					all = append(all, v)
				} else {
					return "", ""
				}
			}
			sort.Float64s(all)
			if q.Order == "order" {
				for i, j := 0, len(all)-1; i < j; i, j = i+1, j-1 {
					all[i], all[j] = all[j], all[i]
				}
			}
			for i := range got {
				if i < len(all) && !near(got[i], all[i]) {
					return "limit-differs", fmt.Sprintf("with limit %d the result keys are %v but the top keys of the central evaluation are %v", q.Limit, got, all[:len(got)])
				}
			}
		}
	}
	return "", ""
}

func c05Shape(s Scenario) string {
	sc := s.(*C05Scenario)
	return fmt.Sprintf("%s/h%d/f%d/n%d/st%d/%s", sc.Transport, sc.Hosts, sc.NFiles, len(sc.Records), sc.StallMs, sc.Query.Render("OUT", ""))
}

func c05Sample(s Scenario) any {
	sc := s.(*C05Scenario)
	recs := sc.Records
	if len(recs) > 4 {
		recs = recs[:4]
	}
	return map[string]any{"transport": sc.Transport, "servers": sc.Hosts, "files": sc.NFiles, "n_records": len(sc.Records), "records_head": recs,
		"query": sc.Query.Render("OUT", "srv eq $hostname"), "reader_stall_ms": sc.StallMs, "net": sc.Net, "sched": sc.Sched}
}

func c05Shrink(s Scenario) []Scenario {
	sc := s.(*C05Scenario)
	var out []Scenario
	cl := func() *C05Scenario {
		n := *sc
		n.Records = append([]map[string]string(nil), sc.Records...)
		n.FileOf = append([]int(nil), sc.FileOf...)
		q := sc.Query
		q.Select = append([]AQSel(nil), sc.Query.Select...)
		q.Where = append([]AQCond(nil), sc.Query.Where...)
		q.Set = append([]AQSet(nil), sc.Query.Set...)
		q.GroupBy = append([]string(nil), sc.Query.GroupBy...)
		n.Query = q
		return &n
	}
	if len(sc.Records) > 1 {
		for _, cut := range [][2]int{{0, len(sc.Records) / 2}, {len(sc.Records) / 2, len(sc.Records)}} {
			n := cl()
			n.Records = n.Records[cut[0]:cut[1]]
			n.FileOf = n.FileOf[cut[0]:cut[1]]
			out = append(out, n)
		}
		n := cl()
		n.Records = n.Records[:len(n.Records)-1]
		n.FileOf = n.FileOf[:len(n.FileOf)-1]
		out = append(out, n)
	}
	for i := range sc.Query.Where {
		n := cl()
		n.Query.Where = append(n.Query.Where[:i], n.Query.Where[i+1:]...)
		out = append(out, n)
	}
	if sc.Query.Order != "" {
		n := cl()
		n.Query.Order = ""
		n.Query.Limit = -1
		out = append(out, n)
	}
	if sc.Query.Limit >= 0 {
		n := cl()
		n.Query.Limit = -1
		out = append(out, n)
	}
	// drop a non-key select item
	nkey := len(sc.Query.GroupBy)
	if nkey == 0 {
		nkey = 1
	}
	for i := nkey; i < len(sc.Query.Select); i++ {
		if len(sc.Query.Select) > nkey+1 && (sc.Query.Order == "" || i != sc.Query.OrderItem) {
			n := cl()
			n.Query.Select = append(n.Query.Select[:i], n.Query.Select[i+1:]...)
			if n.Query.OrderItem > i {
				n.Query.OrderItem--
			}
			out = append(out, n)
		}
	}
	if sc.StallMs > 0 {
		n := cl()
		n.StallMs = 0
		out = append(out, n)
	}
	if sc.NFiles > 1 {
		n := cl()
		n.NFiles = 1
		for i := range n.FileOf {
			n.FileOf[i] = 0
		}
		out = append(out, n)
	}
	if sc.Hosts > 1 {
		n := cl()
		n.Hosts = 1
		recs := make([]map[string]string, len(n.Records))
		for i, r := range n.Records {
			c := map[string]string{}
			for k, v := range r {
				c[k] = v
			}
			c["srv"] = "srv1"
			recs[i] = c
		}
		n.Records = recs
		out = append(out, n)
	}
	n := cl()
	n.Sched = SchedProfile{Mode: "fifo"}
	out = append(out, n)
	return out
}

func init() {
	Register(&Prop{
		ID:    "C05",
		Level: "exploration",
		Rule: "seeded generation of (records, abstract query, partition, history): 0-300 records with missing fields, non-numeric values, negative and fractional numbers in the " +
			"default / generickv / csv formats (default: decoy lines of another table); abstract queries with 1-4 aggregates (count sum min max avg last len) after the group " +
			"fields, 0-2 where conditions over all float and string operators with field/literal on either side, set clauses with md5sum/maskdigits (nested), group by 0-2 " +
			"fields or a set variable, order|rorder by + limit, interval 1/2/5; partition over 1-4 servers (field srv, each simulated server filters 'srv eq $hostname'), over " +
			"1-3 files and over serialisation intervals (per-line reader stalls); map-order decisions permute AGGREGATE message order; the oracle is an independent " +
			"evaluator of the abstract query; non-trivial = more than one group and more than four records; distinct = (scenario shape incl. query text, schedule hash)",
		Real: []string{"internal/mapr (query parser, where/set clauses, AggregateSet, GroupSet, GlobalGroupSet, result writer)", "internal/mapr/server, internal/mapr/client, internal/mapr/logformat",
			"internal/clients (MaprClient)", "internal/server/handlers", "x/crypto/ssh over simnet"},
		Stub: []string{"cmd/dmap main replica", "servers share one file system: the partition over servers is expressed through the documented $hostname variable in an added where condition"},
		Assumptions: []string{"avg = sum / number of lines of the group contributing at least one selected field", "order by = descending, rorder by = ascending numeric order of the selected item",
			"groups none of whose lines carries a selected field may be present or absent", "last/len/bare fields: any value of the group; float tolerance 2e-6 abs + 1e-9 rel (CSV prints 6 decimals)",
			"values contain no ',' (the CSV outfile is unquoted)"},
		New:      func() Scenario { return &C05Scenario{} },
		Gen:      c05Gen,
		Run:      c05Run,
		Shrink:   c05Shrink,
		Shape:    c05Shape,
		Sample:   c05Sample,
		Triggers: map[string]func(Scenario) (Scenario, bool){},
	})
}
