package verifharness

import (
	"bytes"
	"fmt"
	"github.com/mimecast/dtail/internal/regex"
	gossh "golang.org/x/crypto/ssh"
	"regexp"
	"strings"
	"testing"
	"time"

	"github.com/mimecast/dtail/internal/verifsim"
	"github.com/mimecast/dtail/internal/verifsimnet"
)

// C12 — the server applies exactly the filter and options the user specified
// (DESIGN.md §5 C12). End-to-end differential against the user's intent.

type C12Scenario struct {
	ScenarioBase
	Transport string `json:"transport"`
	Regex     string `json:"regex"`
	Invert    bool   `json:"invert"`
	Before    int    `json:"before"`
	After     int    `json:"after"`
	Max       int    `json:"max"`
	Plain     bool   `json:"plain"`
	Quiet     bool   `json:"quiet"`
	// NFiles > 1 (non-plain mode only): the same corpus under several names, given
	// as a comma-separated list; each file's lines are attributed by source id
	NFiles int `json:"nfiles,omitempty"`
	// RivalMs > 0 (SSH, one file): another user's session on the same server
	// asks for the SAME pattern with the OPPOSITE invert flag that many
	// milliseconds after the client started, while the client's read (slowed to
	// 5 ms per line) is still going on
	RivalMs int                 `json:"rival_ms,omitempty"`
	Net     verifsimnet.Profile `json:"net"`
}

// The corpus: 40 lines designed so that different patterns select different
// subsets. No 0xAC byte and no leading '.', to stay clear of the C01 findings.
var c12Corpus = func() []string {
	base := []string{
		"alpha", "alpha beta", "alpha  beta", " leading space", "trailing space ", "a:b", "a::b", "a;b", "x;y;z", "k=v", "k==v", "a,b", "a,,b",
		"50%", "100%%", "base64%QUJD", "pipe|here", "a|b|c", "\"quoted\"", "'single'", "café", "über", "жж", "tab\there", "back\\slash",
		"(paren)", "[bracket]", "{brace}", "star*", "plus+", "quest?", "dollar$", "^caret", "dot.dot", "aaa", "abc", "ABC", "regex:invert x", "max=5:after=2", "",
	}
	out := make([]string, len(base))
	for i, b := range base {
		out[i] = fmt.Sprintf("%02d %s", i+1, b)
	}
	return out
}()

var c12Atoms = []string{"a", "b", "c", " ", "  ", ":", ";", ",", "%", "=", "|", "\"", "'", "é", "ü", "ж", ".", "*", "+", "?", "\\", "(", ")", "[", "]",
	"^", "$", "\\d", "\\s", "[[:alpha:]]", "[a-c]", "x", "alpha", "beta", "base64%", "regex:invert ", "max=5", ":after=2", "\\|", "\\.", "\\$", "(?i)", "ABC", "\\\\", "\t"}

func genC12Regex(r *Rand) string {
	if r.Bool(0.1) {
		return PickOf(r, ".", ".*", " ", "  ", ":", ";", ",", "%", "=", "a b", " $", "^\\d+ $", "\\s\\s")
	}
	for try := 0; try < 30; try++ {
		n := r.Range(1, 6)
		var sb strings.Builder
		for i := 0; i < n; i++ {
			sb.WriteString(c12Atoms[r.Intn(len(c12Atoms))])
		}
		s := sb.String()
		if _, err := regexp.Compile(s); err == nil && s != "" {
			return s
		}
	}
	return regexp.QuoteMeta(c12Atoms[r.Intn(len(c12Atoms))] + c12Atoms[r.Intn(len(c12Atoms))])
}

func c12Gen(r *Rand, tier string, i int) Scenario {
	sc := &C12Scenario{}
	sc.Sched = GenSched(r)
	sc.Transport = PickOf(r, "serverless", "ssh")
	sc.Regex = genC12Regex(r)
	if r.Bool(0.04) {
		// a very long pattern: the encoded command exceeds the 32 KiB copy buffer
		n := PickOf(r, 10000, 24500, 24600, 30000)
		alt := make([]string, 0, n/8)
		for len(strings.Join(alt, "|")) < n {
			alt = append(alt, fmt.Sprintf("zz%05d", r.Intn(99999)))
		}
		sc.Regex = strings.Join(alt, "|") + "|alpha"
	}
	sc.Invert = r.Bool(0.3)
	val := func() int { return PickOf(r, 0, 0, 1, 2, 7, 41, 1000, -1) }
	sc.Before, sc.After, sc.Max = val(), val(), val()
	sc.Plain = r.Bool(0.5)
	sc.Quiet = r.Bool(0.3)
	if !sc.Plain && r.Bool(0.35) {
		sc.NFiles = PickOf(r, 2, 2, 3)
	}
	if sc.Transport == "ssh" && sc.NFiles <= 1 && r.Bool(0.15) {
		sc.RivalMs = PickOf(r, 20, 60, 110, 160)
	}
	if sc.Transport == "ssh" {
		sc.Net = genNetProfile(r)
		if r.Bool(0.2) {
			sc.Net.ChunkMax = PickOf(r, 1, 2, 7)
		}
		if len(sc.Regex) > 1000 && sc.Net.ChunkMax > 0 && sc.Net.ChunkMax < 512 {
			sc.Net.ChunkMax = 1400
		}
	}
	return sc
}

func nonNeg(x int) int {
	if x < 0 {
		return 0
	}
	return x
}

func c12Run(t *testing.T, s Scenario, src verifsim.DecisionSource, keep bool) *RunResult {
	sc := s.(*C12Scenario)
	res := &RunResult{Info: map[string]any{}}
	sel := make([]bool, len(c12Corpus))
	if isNoopPattern(sc.Regex) {
		for i := range sel {
			sel[i] = true
		}
	} else {
		re, err := regexp.Compile(sc.Regex)
		if err != nil {
			res.Aborted = "bad-regex"
			return res
		}
		for i, l := range c12Corpus {
			sel[i] = re.MatchString(l) != sc.Invert
		}
	}
	var proc *ClientProc
	var stdout []byte
	opts := RunOpts{Src: src, KeepLabels: keep, MaxFake: 3 * time.Minute}
	if sc.NFiles > 1 {
		// several file arguments = several commands; every command is held back
		// for 2 s so that all have arrived before the first finishes. Otherwise
		// the open finding F-C02-premature-shutdown (a C02 matter: the session is
		// closed when the commands received so far are done) would lose the
		// later files here too
		opts.Stalls = stallRules([]StallSpec{{Name: "command.hold", Site: siteCommandStart, Suffix: "/go", From: 0, To: -1, DurMs: 2000}})
	}
	if sc.Transport == "ssh" {
		np := sc.Net
		opts.Net = &np
	}
	if sc.RivalMs > 0 {
		opts.Stalls = append(opts.Stalls, stallRules([]StallSpec{{Name: "reader.perline", Site: "io/fs/readfilelcontext.go", Suffix: "/ranged", From: 0, To: -1, DurMs: 5}})...)
	}
	res.Outcome = RunSim(t, opts, func(w *World) {
		w.WriteFile("corpus.log", []byte(strings.Join(c12Corpus, "\n")+"\n"))
		files := []string{"corpus.log"}
		for k := 1; k < sc.NFiles; k++ {
			files = append(files, fmt.Sprintf("corpus%d.log", k))
			w.WriteFile(files[k], []byte(strings.Join(c12Corpus, "\n")+"\n"))
		}
		spec := ReadSpec{Kind: "grep", Transport: sc.Transport, Plain: sc.Plain, Quiet: sc.Quiet, NoColor: true, Files: files,
			Regex: sc.Regex, Invert: sc.Invert, Before: sc.Before, After: sc.After, Max: sc.Max}
		keyPath := ""
		if sc.Transport == "ssh" {
			spec.Hosts = []string{"srv1"}
			keyPath = w.StartSSHWorld(spec.Hosts, ServerCfg{}, nil)
		}
		proc = w.MakeReadClient(spec, keyPath)
		if sc.RivalMs > 0 {
			flag := regex.Invert
			if sc.Invert {
				flag = regex.Default
			}
			if rre, err := regex.New(sc.Regex, flag); err == nil {
				if ser, err := rre.Serialize(); err == nil {
					cmd := fmt.Sprintf("grep: %s %s", w.Data("corpus.log"), ser)
					w.Sim.GoOn(w.Sim.NewNode("rival", "client", "rivalhost"), "harness/rival", func() {
						w.Sleep(time.Duration(sc.RivalMs) * time.Millisecond)
						rs := w.RawDial("rival", "srv1", simUser, []gossh.AuthMethod{gossh.PublicKeys(Key(0).Signer)}, 5*time.Second)
						if rs.DialErr != nil {
							return
						}
						if rs.Shell() == nil {
							rs.Command(cmd)
							w.Sleep(2 * time.Second)
						}
						rs.Close()
					})
				}
			}
		}
		w.RunClient(proc, sc.Transport == "ssh")
		stdout = w.Stdout(proc.StdoutCut)
	})
	nsel := 0
	for _, b := range sel {
		if b {
			nsel++
		}
	}
	res.NonTrivial = nsel > 0 && nsel < len(sel)
	if res.Panic != "" {
		res.Class, res.Message = "panic", res.Panic
		return res
	}
	if res.Aborted != "" {
		if res.Aborted == "timecap" {
			res.Class, res.Message = "no-termination", fmt.Sprintf("session with a %d-byte pattern did not end within the simulated time bound", len(sc.Regex))
		}
		return res
	}
	if proc == nil || !proc.Exited {
		res.Class, res.Message = "no-exit", "client process did not exit"
		return res
	}
	if proc.Panic != "" {
		res.Class, res.Message = "client-panic", proc.Panic
		return res
	}
	want := refGrep(sel, nonNeg(sc.Before), nonNeg(sc.After), nonNeg(sc.Max))
	nfiles := sc.NFiles
	if nfiles < 1 {
		nfiles = 1
	}
	gotBy := make([][]string, nfiles)
	for _, ln := range strings.Split(strings.TrimSuffix(string(stdout), "\n"), "\n") {
		if ln == "" && len(stdout) == 0 {
			continue
		}
		if strings.HasPrefix(ln, "CLIENT|") || strings.HasPrefix(ln, "SERVER|") {
			continue
		}
		isRemote := strings.HasPrefix(ln, "REMOTE|")
		if sc.Plain && isRemote {
			res.Class, res.Message = "mode-differs", fmt.Sprintf("plain mode requested but the output carries a REMOTE prefix: %q", trunc(ln, 80))
			return res
		}
		if !sc.Plain {
			if !isRemote {
				res.Class, res.Message = "mode-differs", fmt.Sprintf("non-plain mode requested but a line has no REMOTE prefix: %q", trunc(ln, 80))
				return res
			}
			parts := strings.SplitN(ln, "|", 6)
			if len(parts) != 6 {
				res.Class, res.Message = "mode-differs", fmt.Sprintf("malformed record %q", trunc(ln, 80))
				return res
			}
			ln = parts[5]
			if nfiles > 1 {
				fi := -1
				for k := 0; k < nfiles; k++ {
					name := "corpus.log"
					if k > 0 {
						name = fmt.Sprintf("corpus%d.log", k)
					}
					if parts[4] == name {
						fi = k
					}
				}
				if fi < 0 {
					res.Class, res.Message = "mode-differs", fmt.Sprintf("record with unknown source id %q", parts[4])
					return res
				}
				gotBy[fi] = append(gotBy[fi], ln)
				continue
			}
		}
		gotBy[0] = append(gotBy[0], ln)
	}
	var exp []string
	for _, i := range want {
		exp = append(exp, c12Corpus[i])
	}
	for fi, got := range gotBy {
		if strings.Join(got, "\n") != strings.Join(exp, "\n") {
			res.Class = "selection-differs"
			res.Message = fmt.Sprintf("pattern %q invert=%v before=%d after=%d max=%d: user's request selects corpus lines %v, session delivered %d lines for file %d of %d: %q",
				trunc(sc.Regex, 80), sc.Invert, sc.Before, sc.After, sc.Max, oneBased(want), len(got), fi+1, nfiles, trunc(strings.Join(got, "\\n"), 200))
			return res
		}
	}
	if proc.Status != 0 {
		res.Class, res.Message = "exit-status", fmt.Sprintf("exit status %d", proc.Status)
	}
	return res
}

func c12Shape(s Scenario) string {
	sc := s.(*C12Scenario)
	return fmt.Sprintf("%s/f%d/%q/i%v/b%d/a%d/m%d/p%v/q%v/chunk%d", sc.Transport, sc.NFiles, trunc(sc.Regex, 40), sc.Invert, sc.Before, sc.After, sc.Max, sc.Plain, sc.Quiet, sc.Net.ChunkMax)
}

func c12Sample(s Scenario) any {
	sc := s.(*C12Scenario)
	return map[string]any{"transport": sc.Transport, "regex": trunc(sc.Regex, 120), "regex_len": len(sc.Regex), "invert": sc.Invert, "before": sc.Before,
		"after": sc.After, "max": sc.Max, "plain": sc.Plain, "quiet": sc.Quiet, "net": sc.Net, "sched": sc.Sched}
}

func c12Shrink(s Scenario) []Scenario {
	sc := s.(*C12Scenario)
	var out []Scenario
	mk := func(f func(n *C12Scenario)) {
		n := *sc
		f(&n)
		if _, err := regexp.Compile(n.Regex); err == nil && n.Regex != "" {
			out = append(out, &n)
		}
	}
	if len(sc.Regex) > 1 {
		mk(func(n *C12Scenario) { n.Regex = n.Regex[:len(n.Regex)/2] })
		mk(func(n *C12Scenario) { n.Regex = n.Regex[len(n.Regex)/2:] })
		mk(func(n *C12Scenario) { n.Regex = n.Regex[1:] })
		mk(func(n *C12Scenario) { n.Regex = n.Regex[:len(n.Regex)-1] })
	}
	mk(func(n *C12Scenario) { n.Before = 0 })
	mk(func(n *C12Scenario) { n.After = 0 })
	mk(func(n *C12Scenario) { n.Max = 0 })
	mk(func(n *C12Scenario) { n.Invert = false })
	mk(func(n *C12Scenario) { n.Quiet = false })
	mk(func(n *C12Scenario) { n.Transport = "serverless" })
	mk(func(n *C12Scenario) { n.Net = verifsimnet.Profile{} })
	mk(func(n *C12Scenario) { n.Sched = SchedProfile{Mode: "fifo"} })
	return out
}

var _ = bytes.Equal

func init() {
	Register(&Prop{
		ID:    "C12",
		Level: "exploration",
		Rule: "seeded generation of dgrep requests over a fixed 40-line corpus: RE2 patterns assembled from atoms including space, ':', ';', ',', '%', '=', '|', quotes, " +
			"non-ASCII, option look-alikes ('max=5', 'regex:invert ', 'base64%'), leading/trailing/doubled spaces and 10-30 KB alternations (command larger than the 32 KiB " +
			"copy buffer); invert; before/after/max from {0,1,2,7,41,1000,-1}; plain/quiet; serverless and SSH with chunking down to 1 byte and permuted option order " +
			"(map iteration is a decision); non-trivial = pattern selects some but not all corpus lines; distinct = (request, schedule hash)",
		Real: []string{"internal/clients (grep client, SendMessage/Read)", "internal/config (SerializeOptions/DeserializeOptions)", "internal/regex (Serialize/Deserialize)",
			"internal/server/handlers (Write re-assembly, handleCommand, handleBase64, readCommand.Start)", "internal/io/fs", "x/crypto/ssh over simnet"},
		Stub:        []string{"cmd/dgrep main replica (flag parsing not exercised)"},
		Assumptions: []string{"negative before/after/max mean 'none' (both ends ignore values <= 0)", "before values above 1000 are not generated: the before ring is allocated eagerly (see DESIGN.md C10 notes)"},
		New:         func() Scenario { return &C12Scenario{} },
		Gen:         c12Gen,
		Run:         c12Run,
		Shrink:      c12Shrink,
		Shape:       c12Shape,
		Sample:      c12Sample,
		Triggers:    map[string]func(Scenario) (Scenario, bool){},
	})
}
