// Package verifsim is the deterministic-simulation runtime that the
// instrumented copy of dtail links against (see /verif/DESIGN.md §2).
//
// One Sim = one simulated run inside a testing/synctest bubble. Instrumented
// goroutines park in Yield; the controller (the bubble's main goroutine)
// releases exactly one candidate per step, chosen by a DecisionSource.
package verifsim

import (
	"fmt"
	"os"
	"runtime"
	"runtime/debug"
	"sort"
	"strings"
	"sync"
	"sync/atomic"
	"testing/synctest"
	"time"
)

// Node is one simulated process (a client or a server).
type Node struct {
	Name     string
	Hostname string
	Kind     string // "client" | "server"
	dead     atomic.Bool
	Vals     sync.Map // per-node values used by overlay files (loggers ...)
}

// Dead reports whether the node has been killed.
func (n *Node) Dead() bool { return n != nil && n.dead.Load() }

// G is the controller's record of one goroutine.
type G struct {
	ID      int    // order of registration (diagnostics only)
	Key     string // structural id: parent's key + "." + index of the go statement executed by the parent
	kids    int
	pre     uint64 // preemption points passed (see Preempt)
	pstep   int    // controller step during which the goroutine parked
	goid    uint64
	node    *Node
	locks   int
	wake    chan struct{}
	site    string
	seq     uint64
	notBef  time.Time
	exiting bool
	parked  bool

	stallChecked bool
}

// Pending is a controller-executed event (network delivery, scripted action).
type Pending struct {
	Due   time.Time
	Label string
	Fifo  string // events with equal non-empty Fifo run in creation order
	Run   func()
	seq   uint64
	cstep int
}

// Decision is one recorded choice.
type Decision struct {
	K string `json:"k"`           // kind: run, sel, map, chunk, ...
	N int    `json:"n"`           // number of alternatives
	C int    `json:"c"`           // chosen alternative
	L string `json:"l,omitempty"` // label (site / goroutine / connection)
}

// CandInfo describes one schedulable candidate to the decision source.
type CandInfo struct {
	Key   string // goroutine structural key, or "" for events
	Label string // site or event label
}

// DecisionSource decides every choice of a run.
type DecisionSource interface {
	// Choose picks one of n alternatives (0 is the benign default).
	Choose(kind string, n int, label string) int
	// ChooseRun picks the next candidate to run.
	ChooseRun(step int, cands []CandInfo) int
}

// StallRule holds a goroutine that parks at a matching site for D of fake
// time. Match is called with the site and the per-rule hit counter; a negative
// return counts a hit without stalling.
type StallRule struct {
	Name  string
	Match func(site string, hit int, g *G) time.Duration
	hits  int
}

// Sim is one simulated run.
type Sim struct {
	mu       sync.Mutex
	gs       map[uint64]*G
	parked   []*G
	pending  []*Pending
	nextID   int
	libSites map[string]int
	ctlKids  int
	seq      uint64
	kick     chan struct{}
	ctlGoid  uint64

	Src      DecisionSource
	Trace    []Decision
	KeepFull bool // record labels
	Steps    int
	MaxSteps int
	Start    time.Time

	DefaultNode *Node
	nodes       []*Node

	Stalls []*StallRule
	// OnPanic: a panic reached the top of an instrumented goroutine; true = it is
	// the expected death of that goroutine's process, not a finding
	OnPanic func(g *G, msg string) bool
	// FSWriteFault: see FileWrite (helpers.go)
	FSWriteFault func(g *G, path string, n int) (int, error)
	// PreemptM > 0 turns the statement-level preemption points (Preempt) on:
	// a goroutine is parked at its n-th point iff hash(PreemptSeed, key, n) % PreemptM == 0
	PreemptM    uint64
	PreemptSeed uint64
	preSites    []uint64
	mwait       map[*sync.Mutex][]*G // goroutines waiting for a mutex (see MutexLock)
	preempted   int

	// SutPanics: panics that reached the top of an instrumented goroutine
	SutPanics []string

	finished atomic.Bool
	frozen   atomic.Bool // teardown: no more decisions are drawn or recorded
	aborted  string

	// statistics
	Faults    map[string]int
	Probes    map[string]int
	SitePairs map[[2]string]struct{}
	lastSite  string
	SchedHash uint64
	Heartbeat *atomic.Int64

	// OnPark, if set, is called by the controller once for every park of a
	// goroutine (all goroutines quiescent), before it can be released: the
	// place to inspect "the state if the process were killed here".
	OnPark func(g *G)
	// OnStep, if set, is called by the controller after every step while all
	// goroutines are quiescent (invariant checks). A non-empty return aborts.
	OnStep func(site string) string
}

var cur atomic.Pointer[Sim]

// Current returns the active simulation or nil.
func Current() *Sim { return cur.Load() }

func goid() uint64 {
	var buf [48]byte
	n := runtime.Stack(buf[:], false)
	var id uint64
	for i := 10; i < n; i++ {
		c := buf[i]
		if c < '0' || c > '9' {
			break
		}
		id = id*10 + uint64(c-'0')
	}
	return id
}

// New creates a simulation; call from inside the bubble, on the goroutine that
// will act as controller.
func New(src DecisionSource) *Sim {
	s := &Sim{
		gs:        map[uint64]*G{},
		kick:      make(chan struct{}, 1),
		ctlGoid:   goid(),
		Src:       src,
		MaxSteps:  400000,
		Start:     time.Now(),
		Faults:    map[string]int{},
		Probes:    map[string]int{},
		SitePairs: map[[2]string]struct{}{},
	}
	return s
}

// Activate makes s the current simulation.
func (s *Sim) Activate() { cur.Store(s) }

// Deactivate clears the current simulation.
func (s *Sim) Deactivate() { cur.CompareAndSwap(s, nil) }

// NewNode registers a simulated process.
func (s *Sim) NewNode(name, kind, hostname string) *Node {
	n := &Node{Name: name, Kind: kind, Hostname: hostname}
	s.nodes = append(s.nodes, n)
	if s.DefaultNode == nil {
		s.DefaultNode = n
	}
	return n
}

// Nodes returns all nodes.
func (s *Sim) Nodes() []*Node { return s.nodes }

// Now is the fake clock.
func (s *Sim) Now() time.Time { return time.Now() }

// Elapsed is fake time since the run started.
func (s *Sim) Elapsed() time.Duration { return time.Since(s.Start) }

func (s *Sim) kickCtl() {
	select {
	case s.kick <- struct{}{}:
	default:
	}
}

// traceCands (VERIF_TRACE_CANDS=1): labels list every candidate (determinism hunts).
var traceCands = os.Getenv("VERIF_TRACE_CANDS") != ""

// Kick wakes the controller (something changed).
func (s *Sim) Kick() { s.kickCtl() }

// self returns the record of the calling goroutine, creating it if needed.
func (s *Sim) self() *G {
	id := goid()
	if id == s.ctlGoid {
		return nil
	}
	s.mu.Lock()
	g := s.gs[id]
	if g == nil {
		// a goroutine that was not started by an instrumented go statement (library
		// goroutine calling back into dtail code): its key is NOT its arrival
		// order, which the Go scheduler decides, but is derived from the place
		// where it first becomes schedulable (see libKey)
		s.nextID++
		g = &G{ID: s.nextID, goid: id, node: s.DefaultNode, wake: make(chan struct{}, 1)}
		s.gs[id] = g
	}
	s.mu.Unlock()
	return g
}

// libKey names a library goroutine after the site where it first parks (or
// spawns) plus a per-site counter. Goroutines reach a given site one at a time
// under the controller, so the name does not depend on the host's scheduler.
func (s *Sim) libKey(g *G, site string) {
	if g.Key != "" {
		return
	}
	s.mu.Lock()
	if s.libSites == nil {
		s.libSites = map[string]int{}
	}
	s.libSites[site]++
	g.Key = fmt.Sprintf("L:%s#%d", site, s.libSites[site])
	s.mu.Unlock()
}

// GoToken carries the spawning goroutine's node to its child.
type GoToken struct {
	node *Node
	sim  *Sim
	key  string
}

// BeforeGo is inserted before every go statement.
func BeforeGo() GoToken {
	s := cur.Load()
	if s == nil {
		return GoToken{}
	}
	g := s.self()
	if g == nil {
		s.ctlKids++
		return GoToken{sim: s, node: s.DefaultNode, key: fmt.Sprintf("0.%d", s.ctlKids)}
	}
	s.libKey(g, "go")
	g.kids++
	return GoToken{sim: s, node: g.node, key: fmt.Sprintf("%s.%d", g.Key, g.kids)}
}

// GoStart is the first statement of every goroutine body.
func GoStart(tok GoToken, site string) {
	s := cur.Load()
	if s == nil || tok.sim != s {
		return
	}
	g := s.self()
	if g == nil {
		return
	}
	g.node = tok.node
	if tok.key != "" {
		g.Key = tok.key
	}
	s.park(g, site)
}

// GoRecover is deferred at the top of every instrumented goroutine. A panic
// that unwinds to the top of a goroutine would crash the real process; here it
// is recorded (with its stack) and the run is aborted.
func GoRecover(site string) {
	r := recover()
	if r == nil {
		return
	}
	s := cur.Load()
	if s == nil {
		panic(r)
	}
	msg := fmt.Sprintf("goroutine started at %s: panic: %v\n%s", site, r, debug.Stack())
	if s.OnPanic != nil {
		if g := s.self(); g != nil && s.OnPanic(g, msg) {
			// an expected death of this simulated process (e.g. a fatal error
			// after an injected disk fault): the process is gone, the run goes on
			s.Kill(g.node)
			return
		}
	}
	s.mu.Lock()
	s.SutPanics = append(s.SutPanics, msg)
	s.mu.Unlock()
	s.Abort("sut-panic")
}

// GoOn starts fn as a scheduled goroutine belonging to node (harness use).
func (s *Sim) GoOn(node *Node, site string, fn func()) {
	tok := BeforeGo()
	tok.sim, tok.node = s, node
	go func() {
		GoStart(tok, site)
		fn()
	}()
}

// CurrentNode returns the node of the calling goroutine (nil outside a sim).
func CurrentNode() *Node {
	s := cur.Load()
	if s == nil {
		return nil
	}
	g := s.self()
	if g == nil {
		return s.DefaultNode
	}
	return g.node
}

// SetNode re-assigns the calling goroutine to node.
func SetNode(n *Node) {
	s := cur.Load()
	if s == nil {
		return
	}
	if g := s.self(); g != nil {
		g.node = n
	}
}

// Hostname replaces os.Hostname in config.Hostname.
func Hostname() (string, error) {
	if n := CurrentNode(); n != nil && n.Hostname != "" {
		return n.Hostname, nil
	}
	return "simhost", nil
}

// LockAcquired / LockReleasing bracket sync.Mutex critical sections: a
// goroutine never parks while it holds a mutex.
func LockAcquired() {
	s := cur.Load()
	if s == nil {
		return
	}
	if g := s.self(); g != nil {
		g.locks++
	}
}

// LockReleasing see LockAcquired.
func LockReleasing() {
	s := cur.Load()
	if s == nil {
		return
	}
	if g := s.self(); g != nil && g.locks > 0 {
		g.locks--
	}
}

// Preempt is inserted before ordinary statements. It models a preemption
// between two statements of a goroutine (what a real scheduler does at any
// instruction): off by default, and when on for a run only a pseudo-random,
// seed-determined subset of the points of each goroutine parks, so that the
// choice does not depend on how goroutines interleave.
func Preempt(id uint32, site string) {
	s := cur.Load()
	if s == nil || s.PreemptM == 0 {
		return
	}
	// hot statements (byte loops) quickly stop being eligible: a site counts at
	// its first 8 executions and then at powers of two only. This test comes
	// first and is cheap; everything below runs a bounded number of times.
	n := atomic.AddUint64(&s.preSites[id&0xffff], 1)
	if n > 8 && n&(n-1) != 0 {
		return
	}
	g := s.self()
	if g == nil || g.locks > 0 || g.Key == "" {
		return
	}
	g.pre++
	h := fnv(s.PreemptSeed|1, g.Key)
	h ^= g.pre * 0x9E3779B97F4A7C15
	h ^= h >> 29
	h *= 0xBF58476D1CE4E5B9
	h ^= h >> 32
	if h%s.PreemptM != 0 {
		return
	}
	s.mu.Lock()
	over := s.preempted >= 3000
	if !over {
		s.preempted++
		s.Probes["preempted"]++
	}
	s.mu.Unlock()
	if over {
		return
	}
	s.park(g, site+"/pre")
}

// EnablePreempt turns the statement-level preemption points on for this run.
func (s *Sim) EnablePreempt(m, seed uint64) {
	s.preSites = make([]uint64, 1<<16)
	s.PreemptSeed = seed
	s.PreemptM = m
}

// MutexLock / MutexUnlock replace (*sync.Mutex).Lock / Unlock in dtail code.
// An uncontended Lock is the real one. A contended Lock does not block in the
// runtime (for testing/synctest a goroutine blocked on a sync.Mutex is not
// durably blocked, so the bubble would never become quiescent while the holder
// itself waits for something): the goroutine waits on its own wake-up channel
// and becomes an ordinary candidate of the controller when the mutex is
// released.
func MutexLock(mu *sync.Mutex, site string) {
	s := cur.Load()
	if s == nil {
		mu.Lock()
		return
	}
	g := s.self()
	if g == nil {
		mu.Lock()
		return
	}
	for !mu.TryLock() {
		s.libKey(g, site)
		s.mu.Lock()
		if s.mwait == nil {
			s.mwait = map[*sync.Mutex][]*G{}
		}
		s.mwait[mu] = append(s.mwait[mu], g)
		g.site = site
		s.mu.Unlock()
		s.kickCtl()
		<-g.wake
		if g.node.Dead() && g.locks == 0 {
			g.exiting = true
			runtime.Goexit()
		}
	}
}

// MutexUnlock see MutexLock.
func MutexUnlock(mu *sync.Mutex) {
	mu.Unlock()
	s := cur.Load()
	if s == nil {
		return
	}
	s.mu.Lock()
	ws := s.mwait[mu]
	delete(s.mwait, mu)
	for _, w := range ws {
		s.seq++
		w.seq = s.seq
		w.pstep = s.Steps
		w.parked = true
		s.parked = append(s.parked, w)
	}
	s.mu.Unlock()
	// releasing a mutex is a scheduling point: who runs next - a waiter, somebody
	// about to lock, or the goroutine that released it - is the controller's decision
	if g := s.self(); g != nil && g.locks == 0 && g.Key != "" {
		s.park(g, "sync/mutex-unlocked")
		return
	}
	if len(ws) > 0 {
		s.kickCtl()
	}
}

// Yield is a scheduling point.
func Yield(site string) {
	s := cur.Load()
	if s == nil {
		return
	}
	g := s.self()
	if g == nil || g.locks > 0 {
		return
	}
	s.park(g, site)
}

func (s *Sim) park(g *G, site string) {
	if g.exiting {
		return
	}
	if g.node.Dead() {
		g.exiting = true
		runtime.Goexit()
	}
	s.libKey(g, site)
	g.site = site
	s.mu.Lock()
	s.seq++
	g.seq = s.seq
	g.pstep = s.Steps
	g.parked = true
	s.parked = append(s.parked, g)
	s.mu.Unlock()
	s.kickCtl()
	<-g.wake
	if g.node.Dead() {
		g.exiting = true
		runtime.Goexit()
	}
}

// Probe counts a "this rare condition was reached" observation.
func Probe(name string) {
	s := cur.Load()
	if s == nil {
		return
	}
	s.mu.Lock()
	s.Probes[name]++
	s.mu.Unlock()
}

// Fault counts an injected fault that actually fired.
func (s *Sim) Fault(kind string) {
	s.mu.Lock()
	s.Faults[kind]++
	s.mu.Unlock()
}

// Choose records a non-scheduling decision.
func (s *Sim) Choose(kind string, n int, label string) int {
	if n <= 1 || s.frozen.Load() {
		return 0
	}
	c := s.Src.Choose(kind, n, label)
	if c < 0 || c >= n {
		c = ((c % n) + n) % n
	}
	d := Decision{K: kind, N: n, C: c}
	if s.KeepFull {
		d.L = label
	}
	s.mu.Lock()
	s.Trace = append(s.Trace, d)
	s.mu.Unlock()
	return c
}

// After schedules a controller-executed event d from now.
func (s *Sim) After(d time.Duration, label, fifo string, run func()) {
	p := &Pending{Due: time.Now().Add(d), Label: label, Fifo: fifo, Run: run}
	s.mu.Lock()
	s.seq++
	p.seq = s.seq
	p.cstep = s.Steps
	s.pending = append(s.pending, p)
	s.mu.Unlock()
	s.kickCtl()
}

// Finish tells the controller that the scenario driver is done.
func (s *Sim) Finish() {
	s.finished.Store(true)
	s.kickCtl()
}

// Abort stops the run as inconclusive/violating with a reason.
func (s *Sim) Abort(reason string) {
	s.mu.Lock()
	if s.aborted == "" {
		s.aborted = reason
	}
	s.mu.Unlock()
	s.kickCtl()
}

// Aborted returns the abort reason, if any.
func (s *Sim) Aborted() string {
	s.mu.Lock()
	defer s.mu.Unlock()
	return s.aborted
}

// Kill marks a node dead: each of its goroutines exits at its next yield.
func (s *Sim) Kill(n *Node) {
	n.dead.Store(true)
	s.Fault("kill.process")
}

type cand struct {
	g   *G
	p   *Pending
	seq uint64
}

func (c cand) step() int {
	if c.g != nil {
		return c.g.pstep
	}
	return c.p.cstep
}

func (c cand) key() string {
	if c.g != nil {
		return "g" + c.g.Key
	}
	return "p" + c.p.Label
}

// keyLess compares dotted numeric keys component-wise.
func keyLess(a, b string) bool {
	for {
		var x, y string
		x, a, _ = strings.Cut(a, ".")
		y, b, _ = strings.Cut(b, ".")
		if x != y {
			if len(x) != len(y) {
				return len(x) < len(y)
			}
			return x < y
		}
		if a == "" || b == "" {
			return a == "" && b != ""
		}
	}
}

func fnv(h uint64, s string) uint64 {
	if h == 0 {
		h = 1469598103934665603
	}
	for i := 0; i < len(s); i++ {
		h ^= uint64(s[i])
		h *= 1099511628211
	}
	return h
}

// Loop is the controller. It returns when the scenario finished (Finish) or
// the run was aborted. maxFake bounds simulated time.
func (s *Sim) Loop(maxFake time.Duration) {
	var infos []CandInfo
	var cands []cand
	var parkedNow []*G
	for {
		synctest.Wait()
		if s.Heartbeat != nil {
			s.Heartbeat.Add(1)
		}
		if s.finished.Load() || s.Aborted() != "" {
			return
		}
		if s.Steps >= s.MaxSteps {
			s.Abort("stepcap")
			return
		}
		now := time.Now()
		if now.Sub(s.Start) > maxFake {
			s.Abort("timecap")
			return
		}
		cands = cands[:0]
		var nextDue time.Time
		due := func(t time.Time) {
			if nextDue.IsZero() || t.Before(nextDue) {
				nextDue = t
			}
		}
		parkedNow = parkedNow[:0]
		s.mu.Lock()
		for _, g := range s.parked {
			if !g.stallChecked {
				g.stallChecked = true
				if s.OnPark != nil {
					parkedNow = append(parkedNow, g)
				}
				var hold time.Duration
				for _, r := range s.Stalls {
					d := r.Match(g.site, r.hits, g)
					if d != 0 {
						r.hits++
					}
					if d > hold {
						hold = d
						s.Faults["stall."+r.Name]++
					}
				}
				if hold > 0 {
					g.notBef = now.Add(hold)
				}
			}
			if !g.notBef.IsZero() && g.notBef.After(now) {
				due(g.notBef)
				continue
			}
			cands = append(cands, cand{g: g, seq: g.seq})
		}
		seenFifo := map[string]bool{}
		sort.SliceStable(s.pending, func(i, j int) bool { return s.pending[i].seq < s.pending[j].seq })
		for _, p := range s.pending {
			if p.Fifo != "" {
				if seenFifo[p.Fifo] {
					continue
				}
				seenFifo[p.Fifo] = true
			}
			if p.Due.After(now) {
				due(p.Due)
				continue
			}
			cands = append(cands, cand{p: p, seq: p.seq})
		}
		s.mu.Unlock()
		if s.OnPark != nil && len(parkedNow) > 0 {
			// newly parked goroutines, in deterministic order; the hook may kill nodes
			sort.Slice(parkedNow, func(i, j int) bool { return keyLess(parkedNow[i].Key, parkedNow[j].Key) })
			for _, g := range parkedNow {
				s.OnPark(g)
			}
		}

		if len(cands) == 0 {
			// nothing runnable: let fake time advance to the next timer
			var tc <-chan time.Time
			if !nextDue.IsZero() {
				tc = time.After(nextDue.Sub(now))
			} else {
				// safety net so a fully idle system still reaches maxFake
				tc = time.After(maxFake - now.Sub(s.Start) + time.Millisecond)
			}
			select {
			case <-s.kick:
			case <-tc:
			}
			continue
		}
		// FIFO by the controller step in which the candidate appeared; within
		// one step by structural key / label, never by arrival order (which
		// depends on the Go runtime's scheduling of simultaneously woken goroutines)
		sort.SliceStable(cands, func(i, j int) bool {
			a, b := cands[i], cands[j]
			as, bs := a.step(), b.step()
			if as != bs {
				return as < bs
			}
			ak, bk := a.key(), b.key()
			if ak != bk {
				return keyLess(ak, bk)
			}
			return a.seq < b.seq
		})
		infos = infos[:0]
		for _, c := range cands {
			if c.g != nil {
				infos = append(infos, CandInfo{Key: c.g.Key, Label: c.g.site})
			} else {
				infos = append(infos, CandInfo{Key: "", Label: c.p.Label})
			}
		}
		idx := 0
		if len(cands) > 1 {
			idx = s.Src.ChooseRun(s.Steps, infos)
			if idx < 0 || idx >= len(cands) {
				idx = ((idx % len(cands)) + len(cands)) % len(cands)
			}
			d := Decision{K: "run", N: len(cands), C: idx}
			if s.KeepFull {
				d.L = fmt.Sprintf("g%s@%s", infos[idx].Key, infos[idx].Label)
				if traceCands {
					for _, ci := range infos {
						d.L += " [" + ci.Key + "@" + ci.Label + "]"
					}
				}
			}
			s.Trace = append(s.Trace, d)
		}
		s.Steps++
		ch := cands[idx]
		site := infos[idx].Label
		s.SchedHash = fnv(s.SchedHash, site)
		s.SchedHash = fnv(s.SchedHash, infos[idx].Key)
		if len(s.SitePairs) < 200000 {
			s.SitePairs[[2]string{s.lastSite, site}] = struct{}{}
		}
		s.lastSite = site
		if ch.g != nil {
			g := ch.g
			s.mu.Lock()
			for i, x := range s.parked {
				if x == g {
					s.parked = append(s.parked[:i], s.parked[i+1:]...)
					break
				}
			}
			g.parked = false
			g.notBef = time.Time{}
			g.stallChecked = false
			s.mu.Unlock()
			g.wake <- struct{}{}
		} else {
			p := ch.p
			s.mu.Lock()
			for i, x := range s.pending {
				if x == p {
					s.pending = append(s.pending[:i], s.pending[i+1:]...)
					break
				}
			}
			s.mu.Unlock()
			p.Run()
		}
		if s.OnStep != nil {
			synctest.Wait()
			if v := s.OnStep(site); v != "" {
				s.Abort(v)
				return
			}
		}
	}
}

// Teardown releases everything so that the bubble can end: all nodes are
// marked dead, parked goroutines exit, fake time is advanced so that timers
// fire. Returns the number of goroutines still registered and parked at the
// end (leak observation).
func (s *Sim) Teardown(rounds int, step time.Duration) int {
	s.frozen.Store(true)
	for _, n := range s.nodes {
		n.dead.Store(true)
	}
	for i := 0; i < rounds; i++ {
		synctest.Wait()
		s.mu.Lock()
		ps := s.parked
		s.parked = nil
		pend := s.pending
		s.pending = nil
		s.mu.Unlock()
		for _, g := range ps {
			g.parked = false
			g.wake <- struct{}{}
		}
		_ = pend
		if len(ps) == 0 && i > 2 {
			time.Sleep(step)
		} else {
			time.Sleep(time.Millisecond)
		}
	}
	synctest.Wait()
	s.mu.Lock()
	n := len(s.parked)
	s.mu.Unlock()
	return n
}

// ParkedSites lists the sites of currently parked goroutines (diagnostics).
func (s *Sim) ParkedSites() []string {
	s.mu.Lock()
	defer s.mu.Unlock()
	var out []string
	for _, g := range s.parked {
		out = append(out, fmt.Sprintf("g%s@%s", g.Key, g.site))
	}
	return out
}

// Site returns the site where g is parked.
func (g *G) Site() string { return g.site }

// Node returns g's node.
func (g *G) Node() *Node { return g.node }
