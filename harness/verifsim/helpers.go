package verifsim

import (
	"fmt"
	"sort"
)

// Sel is the controller-chosen priority order of one select statement.
type Sel struct {
	perm  []int
	level int
}

// BeginSelect draws the case priority for a select with n communication
// clauses. Outside a simulation it returns nil (all cases armed, no polling).
func BeginSelect(site string, n int) *Sel {
	s := cur.Load()
	if s == nil {
		return nil
	}
	g := s.self()
	if g == nil {
		return nil
	}
	alts := 1
	if n <= 6 {
		for i := 2; i <= n; i++ {
			alts *= i
		}
	} else {
		alts = n
	}
	c := s.Choose("sel", alts, site)
	perm := make([]int, n)
	if n <= 6 {
		// Lehmer decoding; c == 0 is the identity permutation
		avail := make([]int, n)
		for i := range avail {
			avail[i] = i
		}
		f := alts
		for i := 0; i < n; i++ {
			f /= (n - i)
			k := c / f
			c %= f
			perm[i] = avail[k]
			avail = append(avail[:k], avail[k+1:]...)
		}
	} else {
		for i := range perm {
			perm[i] = (i + c) % n
		}
	}
	if c != 0 {
		s.mu.Lock()
		s.Faults["sched.select"]++
		s.mu.Unlock()
	}
	return &Sel{perm: perm}
}

// On reports whether clause i is armed at the current priority level.
func (s *Sel) On(i int) bool {
	if s == nil {
		return true
	}
	return s.level < len(s.perm) && s.perm[s.level] == i
}

// Next advances to the next priority level; false when all were polled.
func (s *Sel) Next() bool {
	if s == nil {
		return false
	}
	s.level++
	return s.level < len(s.perm)
}

// Ready records that a poll at some level fired while lower-priority clauses
// had not been polled yet (probe: the select had a real choice).
func (s *Sel) Level() int {
	if s == nil {
		return 0
	}
	return s.level
}

// MaskR returns ch if on, else a nil channel (never ready).
func MaskR[T any](on bool, ch <-chan T) <-chan T {
	if on {
		return ch
	}
	return nil
}

// MaskS returns ch if on, else a nil channel (never ready).
func MaskS[T any](on bool, ch chan<- T) chan<- T {
	if on {
		return ch
	}
	return nil
}

// Keys returns the keys of m in a controller-chosen order (decision 0 =
// sorted order).
func Keys[K comparable, V any](m map[K]V, site string) []K {
	keys := make([]K, 0, len(m))
	for k := range m {
		keys = append(keys, k)
	}
	if len(keys) < 2 {
		return keys
	}
	strs := make(map[K]string, len(keys))
	for _, k := range keys {
		strs[k] = fmt.Sprint(k)
	}
	sort.Slice(keys, func(i, j int) bool { return strs[keys[i]] < strs[keys[j]] })
	s := cur.Load()
	if s == nil {
		return keys
	}
	if g := s.self(); g == nil {
		return keys
	}
	c := s.Choose("map", 1<<20, site)
	if c == 0 {
		return keys
	}
	s.mu.Lock()
	s.Faults["sched.maporder"]++
	s.mu.Unlock()
	// Fisher-Yates driven by an LCG seeded with c
	x := uint64(c)*6364136223846793005 + 1442695040888963407
	for i := len(keys) - 1; i > 0; i-- {
		x = x*6364136223846793005 + 1442695040888963407
		j := int((x >> 33) % uint64(i+1))
		keys[i], keys[j] = keys[j], keys[i]
	}
	return keys
}

// Go0..Go6 replace `go f(args...)` for non-literal callees so that the new
// goroutine inherits its parent's node and starts at a yield point. Arguments
// are evaluated by the caller, as with a go statement.
func Go0(site string, f func()) {
	tok := BeforeGo()
	go func() { GoStart(tok, site); f() }()
}
func Go1[A any](site string, f func(A), a A) {
	tok := BeforeGo()
	go func() { GoStart(tok, site); f(a) }()
}
func Go2[A, B any](site string, f func(A, B), a A, b B) {
	tok := BeforeGo()
	go func() { GoStart(tok, site); f(a, b) }()
}
func Go3[A, B, C any](site string, f func(A, B, C), a A, b B, c C) {
	tok := BeforeGo()
	go func() { GoStart(tok, site); f(a, b, c) }()
}
func Go4[A, B, C, D any](site string, f func(A, B, C, D), a A, b B, c C, d D) {
	tok := BeforeGo()
	go func() { GoStart(tok, site); f(a, b, c, d) }()
}
func Go5[A, B, C, D, E any](site string, f func(A, B, C, D, E), a A, b B, c C, d D, e E) {
	tok := BeforeGo()
	go func() { GoStart(tok, site); f(a, b, c, d, e) }()
}
func Go6[A, B, C, D, E, F any](site string, f func(A, B, C, D, E, F), a A, b B, c C, d D, e E, x F) {
	tok := BeforeGo()
	go func() { GoStart(tok, site); f(a, b, c, d, e, x) }()
}
func Go7[A, B, C, D, E, F, H any](site string, f func(A, B, C, D, E, F, H), a A, b B, c C, d D, e E, x F, h H) {
	tok := BeforeGo()
	go func() { GoStart(tok, site); f(a, b, c, d, e, x, h) }()
}

// Go0R.. are the variants for callees with one result (discarded).
func Go0R[R any](site string, f func() R) {
	tok := BeforeGo()
	go func() { GoStart(tok, site); f() }()
}
func Go1R[A, R any](site string, f func(A) R, a A) {
	tok := BeforeGo()
	go func() { GoStart(tok, site); f(a) }()
}
func Go2R[A, B, R any](site string, f func(A, B) R, a A, b B) {
	tok := BeforeGo()
	go func() { GoStart(tok, site); f(a, b) }()
}
func Go3R[A, B, C, R any](site string, f func(A, B, C) R, a A, b B, c C) {
	tok := BeforeGo()
	go func() { GoStart(tok, site); f(a, b, c) }()
}
