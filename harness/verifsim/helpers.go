package verifsim

import (
	"errors"
	"fmt"
	"io"
	"os"
	"sort"
	"strings"
)

// Sel is the controller-chosen priority order of one select statement.
type Sel struct {
	perm  []int
	level int
}

// BeginSelect draws the case priority for a select with n communication
// clauses. Outside a simulation it returns nil (all cases armed, no polling).
func BeginSelect(site string, n int) *Sel {
	s := cur.Load()
	if s == nil {
		return nil
	}
	g := s.self()
	if g == nil {
		return nil
	}
	alts := 1
	if n <= 6 {
		for i := 2; i <= n; i++ {
			alts *= i
		}
	} else {
		alts = n
	}
	c := s.Choose("sel", alts, site)
	perm := make([]int, n)
	if n <= 6 {
		// Lehmer decoding; c == 0 is the identity permutation
		avail := make([]int, n)
		for i := range avail {
			avail[i] = i
		}
		f := alts
		for i := 0; i < n; i++ {
			f /= (n - i)
			k := c / f
			c %= f
			perm[i] = avail[k]
			avail = append(avail[:k], avail[k+1:]...)
		}
	} else {
		for i := range perm {
			perm[i] = (i + c) % n
		}
	}
	if c != 0 {
		s.mu.Lock()
		s.Faults["sched.select"]++
		s.mu.Unlock()
	}
	return &Sel{perm: perm}
}

// On reports whether clause i is armed at the current priority level.
func (s *Sel) On(i int) bool {
	if s == nil {
		return true
	}
	return s.level < len(s.perm) && s.perm[s.level] == i
}

// Next advances to the next priority level; false when all were polled.
func (s *Sel) Next() bool {
	if s == nil {
		return false
	}
	s.level++
	return s.level < len(s.perm)
}

// Ready records that a poll at some level fired while lower-priority clauses
// had not been polled yet (probe: the select had a real choice).
func (s *Sel) Level() int {
	if s == nil {
		return 0
	}
	return s.level
}

// MaskR returns ch if on, else a nil channel (never ready).
func MaskR[T any](on bool, ch <-chan T) <-chan T {
	if on {
		return ch
	}
	return nil
}

// MaskS returns ch if on, else a nil channel (never ready).
func MaskS[T any](on bool, ch chan<- T) chan<- T {
	if on {
		return ch
	}
	return nil
}

// Keys returns the keys of m in a controller-chosen order (decision 0 =
// sorted order).
func Keys[K comparable, V any](m map[K]V, site string) []K {
	keys := make([]K, 0, len(m))
	for k := range m {
		keys = append(keys, k)
	}
	if len(keys) < 2 {
		return keys
	}
	strs := make(map[K]string, len(keys))
	for _, k := range keys {
		strs[k] = fmt.Sprint(k)
	}
	sort.Slice(keys, func(i, j int) bool { return strs[keys[i]] < strs[keys[j]] })
	s := cur.Load()
	if s == nil {
		return keys
	}
	if g := s.self(); g == nil {
		return keys
	}
	c := s.Choose("map", 1<<20, site)
	if c == 0 {
		return keys
	}
	s.mu.Lock()
	s.Faults["sched.maporder"]++
	s.mu.Unlock()
	// Fisher-Yates driven by an LCG seeded with c
	x := uint64(c)*6364136223846793005 + 1442695040888963407
	for i := len(keys) - 1; i > 0; i-- {
		x = x*6364136223846793005 + 1442695040888963407
		j := int((x >> 33) % uint64(i+1))
		keys[i], keys[j] = keys[j], keys[i]
	}
	return keys
}

// Go0..Go6 replace `go f(args...)` for non-literal callees so that the new
// goroutine inherits its parent's node and starts at a yield point. Arguments
// are evaluated by the caller, as with a go statement.
func Go0(site string, f func()) {
	tok := BeforeGo()
	go func() { GoStart(tok, site); f() }()
}
func Go1[A any](site string, f func(A), a A) {
	tok := BeforeGo()
	go func() { GoStart(tok, site); f(a) }()
}
func Go2[A, B any](site string, f func(A, B), a A, b B) {
	tok := BeforeGo()
	go func() { GoStart(tok, site); f(a, b) }()
}
func Go3[A, B, C any](site string, f func(A, B, C), a A, b B, c C) {
	tok := BeforeGo()
	go func() { GoStart(tok, site); f(a, b, c) }()
}
func Go4[A, B, C, D any](site string, f func(A, B, C, D), a A, b B, c C, d D) {
	tok := BeforeGo()
	go func() { GoStart(tok, site); f(a, b, c, d) }()
}
func Go5[A, B, C, D, E any](site string, f func(A, B, C, D, E), a A, b B, c C, d D, e E) {
	tok := BeforeGo()
	go func() { GoStart(tok, site); f(a, b, c, d, e) }()
}
func Go6[A, B, C, D, E, F any](site string, f func(A, B, C, D, E, F), a A, b B, c C, d D, e E, x F) {
	tok := BeforeGo()
	go func() { GoStart(tok, site); f(a, b, c, d, e, x) }()
}
func Go7[A, B, C, D, E, F, H any](site string, f func(A, B, C, D, E, F, H), a A, b B, c C, d D, e E, x F, h H) {
	tok := BeforeGo()
	go func() { GoStart(tok, site); f(a, b, c, d, e, x, h) }()
}

// Go0R.. are the variants for callees with one result (discarded).
func Go0R[R any](site string, f func() R) {
	tok := BeforeGo()
	go func() { GoStart(tok, site); f() }()
}
func Go1R[A, R any](site string, f func(A) R, a A) {
	tok := BeforeGo()
	go func() { GoStart(tok, site); f(a) }()
}
func Go2R[A, B, R any](site string, f func(A, B) R, a A, b B) {
	tok := BeforeGo()
	go func() { GoStart(tok, site); f(a, b) }()
}
func Go3R[A, B, C, R any](site string, f func(A, B, C) R, a A, b B, c C) {
	tok := BeforeGo()
	go func() { GoStart(tok, site); f(a, b, c) }()
}

// FileWrite / FileWriteString replace (*os.File).Write / WriteString in dtail
// code (call-site rewrite). They are the disk seam: a run may install
// Sim.FSWriteFault, which decides per write whether it fails and how many
// bytes reach the file before it does (short write, ENOSPC, EIO).
func FileWrite(f *os.File, b []byte) (int, error) {
	if deadCaller() {
		return 0, errDead
	}
	if s := cur.Load(); s != nil && s.FSWriteFault != nil {
		if g := s.self(); g != nil {
			if k, err := s.FSWriteFault(g, f.Name(), len(b)); err != nil {
				n := 0
				if k > 0 && k <= len(b) {
					n, _ = f.Write(b[:k])
				}
				s.Fault("disk.write-error")
				return n, err
			}
		}
	}
	return f.Write(b)
}

// FileWriteString see FileWrite.
func FileWriteString(f *os.File, str string) (int, error) {
	if s := cur.Load(); s != nil && (s.FSWriteFault != nil || deadCaller()) {
		return FileWrite(f, []byte(str))
	}
	return f.WriteString(str)
}

// A killed process has no further effect on the file system. Its goroutines
// unwind with runtime.Goexit (their deferred functions run, which a real
// SIGKILL would not allow), so every file-system mutation dtail code makes goes
// through one of the wrappers below and is refused once the caller's node is dead.
var errDead = errors.New("verifsim: the process was killed")

func deadCaller() bool {
	s := cur.Load()
	if s == nil {
		return false
	}
	g := s.self()
	return g != nil && g.node != nil && g.node.Dead()
}

// OSRename etc. replace the os functions of the same name in dtail code.
func OSRename(oldpath, newpath string) error {
	if deadCaller() {
		return &os.LinkError{Op: "rename", Old: oldpath, New: newpath, Err: errDead}
	}
	return os.Rename(oldpath, newpath)
}

func OSRemove(name string) error {
	if deadCaller() {
		return &os.PathError{Op: "remove", Path: name, Err: errDead}
	}
	return os.Remove(name)
}

func OSRemoveAll(name string) error {
	if deadCaller() {
		return &os.PathError{Op: "removeall", Path: name, Err: errDead}
	}
	return os.RemoveAll(name)
}

func OSOpenFile(name string, flag int, perm os.FileMode) (*os.File, error) {
	if flag&(os.O_WRONLY|os.O_RDWR|os.O_CREATE|os.O_TRUNC|os.O_APPEND) != 0 && deadCaller() {
		return nil, &os.PathError{Op: "open", Path: name, Err: errDead}
	}
	return os.OpenFile(name, flag, perm)
}

func OSCreate(name string) (*os.File, error) {
	if deadCaller() {
		return nil, &os.PathError{Op: "open", Path: name, Err: errDead}
	}
	return os.Create(name)
}

func OSWriteFile(name string, data []byte, perm os.FileMode) error {
	if deadCaller() {
		return &os.PathError{Op: "open", Path: name, Err: errDead}
	}
	// os.WriteFile is open(O_TRUNC), write, close: between the first two the
	// file is empty, which is a state a crash (or an observer) can meet
	f, err := os.OpenFile(name, os.O_WRONLY|os.O_CREATE|os.O_TRUNC, perm)
	if err != nil {
		return err
	}
	site := "os/writefile"
	if s := cur.Load(); s != nil {
		if g := s.self(); g != nil && g.site != "" {
			site = strings.TrimSuffix(g.site, "/fs") + "+truncated"
		}
	}
	Yield(site + "/fs")
	if deadCaller() {
		f.Close()
		return &os.PathError{Op: "write", Path: name, Err: errDead}
	}
	_, err = FileWrite(f, data)
	if err1 := f.Close(); err1 != nil && err == nil {
		err = err1
	}
	return err
}

func OSTruncate(name string, size int64) error {
	if deadCaller() {
		return &os.PathError{Op: "truncate", Path: name, Err: errDead}
	}
	return os.Truncate(name, size)
}

func OSSymlink(oldname, newname string) error {
	if deadCaller() {
		return &os.LinkError{Op: "symlink", Old: oldname, New: newname, Err: errDead}
	}
	return os.Symlink(oldname, newname)
}

func OSLink(oldname, newname string) error {
	if deadCaller() {
		return &os.LinkError{Op: "link", Old: oldname, New: newname, Err: errDead}
	}
	return os.Link(oldname, newname)
}

// Stdin replaces os.Stdin in dtail's prompt package: reading the user's answer
// is a scheduling point ("user/answers"), at which a stall rule can model the
// time the user takes to answer.
func Stdin() io.Reader { return stdinReader{} }

type stdinReader struct{}

func (stdinReader) Read(p []byte) (int, error) {
	Yield("user/answers")
	return os.Stdin.Read(p)
}
