// Package verifsimnet is the simulated network (DESIGN.md §2.4): in-memory
// duplex byte connections whose every delivery is a controller event.
package verifsimnet

import (
	"context"
	"errors"
	"fmt"
	"io"
	"net"
	"os"
	"strconv"
	"strings"
	"sync"
	"time"

	"github.com/mimecast/dtail/internal/verifsim"
	"golang.org/x/crypto/ssh"
)

// Profile is the network part of a run's fault profile.
type Profile struct {
	LatencyMs   int            // base one-way latency
	JitterMs    int            // extra 0..JitterMs per segment, by decision
	ChunkMax    int            // 0 = deliver whole segments; else max bytes per delivery, size by decision
	ConnLatency map[string]int // extra one-way latency in ms per "client->server" host name
}

// Net is one run's network.
type Net struct {
	Sim       *verifsim.Sim
	Prof      Profile
	mu        sync.Mutex
	listeners map[string]*Listener // "host:port"
	hosts     map[string]net.IP    // hostname -> IP
	Zone      map[string][]net.IP  // resolver answers for names (LookupIP)
	ZoneFail  map[string]bool
	conns     []*Conn
	nextPort  int
	// NextLocalPort, if not 0, is the source port of the next Dial (one shot): a
	// client re-connecting from the port it used before (SO_REUSEADDR, a NAT
	// that pins the port)
	NextLocalPort int
	Refuse        map[string]bool // addresses refusing connections
	Blackhole     map[string]bool // addresses accepting the dial but never answering
	Dials         []string        // every dialled address, in order (C18)
	DialHook      func(addr string)
}

var cur *Net

// Install makes n the network used by rewritten call sites.
func Install(n *Net) { cur = n }

// Current returns the installed network.
func Current() *Net { return cur }

// New creates an empty network.
func New(sim *verifsim.Sim, prof Profile) *Net {
	return &Net{Sim: sim, Prof: prof, listeners: map[string]*Listener{}, hosts: map[string]net.IP{},
		Zone: map[string][]net.IP{}, ZoneFail: map[string]bool{}, nextPort: 40000,
		Refuse: map[string]bool{}, Blackhole: map[string]bool{}}
}

// AddHost registers a host name with an address.
func (n *Net) AddHost(name string, ip net.IP) {
	n.mu.Lock()
	n.hosts[name] = ip
	n.mu.Unlock()
}

// HostIP returns the address of a host.
func (n *Net) HostIP(name string) net.IP {
	n.mu.Lock()
	defer n.mu.Unlock()
	if ip, ok := n.hosts[name]; ok {
		return ip
	}
	return net.IPv4(10, 9, 9, 9)
}

// Conns returns all connections created so far.
func (n *Net) Conns() []*Conn {
	n.mu.Lock()
	defer n.mu.Unlock()
	return append([]*Conn(nil), n.conns...)
}

// ---------------------------------------------------------------------------

type segment struct {
	data []byte
	fin  bool
}

// half is one direction of a connection: bytes written by the peer, to be
// read by the owner.
type half struct {
	mu           sync.Mutex
	cond         *sync.Cond
	inflight     []segment
	rx           []byte
	eof          bool
	reset        bool
	deadline     time.Time
	dlTimer      *time.Timer
	stalledUntil time.Time
}

// Conn is one endpoint.
type Conn struct {
	ID       int
	net      *Net
	in       *half // what we read
	out      *half // what the peer reads
	peer     *Conn
	local    net.Addr
	remote   net.Addr
	label    string // "c3:cli" / "c3:srv"
	closed   bool
	extraLat time.Duration
	// stats
	BytesDelivered int
}

func newHalf() *half {
	h := &half{}
	h.cond = sync.NewCond(&h.mu)
	return h
}

func (c *Conn) Read(p []byte) (int, error) {
	h := c.in
	h.mu.Lock()
	defer h.mu.Unlock()
	for {
		if h.reset {
			return 0, errors.New("simnet: connection reset by peer")
		}
		if len(h.rx) > 0 {
			n := copy(p, h.rx)
			h.rx = h.rx[n:]
			return n, nil
		}
		if h.eof {
			return 0, io.EOF
		}
		if c.closed {
			return 0, net.ErrClosed
		}
		if !h.deadline.IsZero() && !time.Now().Before(h.deadline) {
			return 0, os.ErrDeadlineExceeded
		}
		h.cond.Wait()
	}
}

func (c *Conn) Write(p []byte) (int, error) {
	h := c.out
	h.mu.Lock()
	if c.closed || h.reset || h.eof {
		h.mu.Unlock()
		return 0, errors.New("simnet: write on closed connection")
	}
	h.inflight = append(h.inflight, segment{data: append([]byte(nil), p...)})
	h.mu.Unlock()
	c.net.schedule(c, h)
	return len(p), nil
}

func (n *Net) schedule(c *Conn, h *half) {
	lat := time.Duration(n.Prof.LatencyMs)*time.Millisecond + c.extraLat
	if n.Prof.JitterMs > 0 {
		j := n.Sim.Choose("lat", n.Prof.JitterMs+1, c.label)
		lat += time.Duration(j) * time.Millisecond
	}
	n.Sim.After(lat, "net:"+c.label, c.label, func() { n.deliver(c, h) })
}

// deliver moves bytes of the head in-flight segment into the peer's receive
// buffer. Runs in the controller.
func (n *Net) deliver(c *Conn, h *half) {
	h.mu.Lock()
	if len(h.inflight) == 0 || h.reset {
		h.mu.Unlock()
		return
	}
	if !h.stalledUntil.IsZero() && time.Now().Before(h.stalledUntil) {
		d := time.Until(h.stalledUntil)
		h.mu.Unlock()
		n.Sim.After(d, "net:"+c.label, c.label, func() { n.deliver(c, h) })
		return
	}
	seg := h.inflight[0]
	if seg.fin {
		h.inflight = h.inflight[1:]
		h.eof = true
		h.cond.Broadcast()
		h.mu.Unlock()
		return
	}
	k := len(seg.data)
	if n.Prof.ChunkMax > 0 && len(seg.data) > 1 {
		max := n.Prof.ChunkMax
		if max > len(seg.data) {
			max = len(seg.data)
		}
		h.mu.Unlock()
		ch := n.Sim.Choose("chunk", max, c.label)
		h.mu.Lock()
		if ch == 0 {
			k = max
		} else {
			k = ch
		}
	}
	h.rx = append(h.rx, seg.data[:k]...)
	c.BytesDelivered += k
	rest := false
	if k < len(seg.data) {
		h.inflight[0].data = seg.data[k:]
		rest = true
		n.Sim.Fault("net.chunk")
	} else {
		h.inflight = h.inflight[1:]
	}
	h.cond.Broadcast()
	h.mu.Unlock()
	if rest {
		n.Sim.After(0, "net:"+c.label, c.label, func() { n.deliver(c, h) })
	}
}

// Close closes our side; the peer reads EOF after the in-flight data.
func (c *Conn) Close() error {
	c.in.mu.Lock()
	already := c.closed
	c.closed = true
	c.in.cond.Broadcast()
	c.in.mu.Unlock()
	if already {
		return nil
	}
	h := c.out
	h.mu.Lock()
	if !h.reset && !h.eof {
		h.inflight = append(h.inflight, segment{fin: true})
		h.mu.Unlock()
		c.net.schedule(c, h)
	} else {
		h.mu.Unlock()
	}
	return nil
}

// Reset aborts the connection in both directions (fault net.reset).
func (c *Conn) Reset() {
	for _, h := range []*half{c.in, c.out} {
		h.mu.Lock()
		h.reset = true
		h.inflight = nil
		h.cond.Broadcast()
		h.mu.Unlock()
	}
	c.net.Sim.Fault("net.reset")
}

// Stall holds deliveries towards the peer of c for d (fault net.stall).
func (c *Conn) Stall(d time.Duration) {
	c.out.mu.Lock()
	c.out.stalledUntil = time.Now().Add(d)
	c.out.mu.Unlock()
	c.net.Sim.Fault("net.stall")
}

// Open reports whether neither side has closed or reset the connection.
func (c *Conn) Open() bool {
	c.in.mu.Lock()
	defer c.in.mu.Unlock()
	return !c.closed && !c.in.reset && !c.in.eof
}

// Peer returns the other endpoint.
func (c *Conn) Peer() *Conn { return c.peer }

// Label returns the endpoint label.
func (c *Conn) Label() string { return c.label }

func (c *Conn) LocalAddr() net.Addr  { return c.local }
func (c *Conn) RemoteAddr() net.Addr { return c.remote }

func (c *Conn) SetDeadline(t time.Time) error { return c.SetReadDeadline(t) }
func (c *Conn) SetReadDeadline(t time.Time) error {
	h := c.in
	h.mu.Lock()
	h.deadline = t
	if h.dlTimer != nil {
		h.dlTimer.Stop()
		h.dlTimer = nil
	}
	if !t.IsZero() {
		h.dlTimer = time.AfterFunc(time.Until(t), func() {
			h.mu.Lock()
			h.cond.Broadcast()
			h.mu.Unlock()
		})
	}
	h.mu.Unlock()
	return nil
}
func (c *Conn) SetWriteDeadline(t time.Time) error { return nil }

// ---------------------------------------------------------------------------

// Listener is a simulated listening socket.
type Listener struct {
	net      *Net
	addr     *net.TCPAddr
	key      string
	mu       sync.Mutex
	cond     *sync.Cond
	queue    []*Conn
	closed   bool
	Accepted int
}

func (l *Listener) Accept() (net.Conn, error) {
	l.mu.Lock()
	defer l.mu.Unlock()
	for {
		if l.closed {
			return nil, net.ErrClosed
		}
		if len(l.queue) > 0 {
			c := l.queue[0]
			l.queue = l.queue[1:]
			l.Accepted++
			return c, nil
		}
		l.cond.Wait()
	}
}

func (l *Listener) Close() error {
	l.mu.Lock()
	l.closed = true
	l.cond.Broadcast()
	l.mu.Unlock()
	l.net.mu.Lock()
	delete(l.net.listeners, l.key)
	l.net.mu.Unlock()
	return nil
}

func (l *Listener) Addr() net.Addr { return l.addr }

// Listen replaces net.Listen: the listener is registered under the host name
// of the calling goroutine's node.
func Listen(network, addr string) (net.Listener, error) {
	n := cur
	if n == nil {
		return nil, errors.New("simnet: no network installed")
	}
	host := "simhost"
	if nd := verifsim.CurrentNode(); nd != nil {
		host = nd.Hostname
	}
	port := 0
	if i := strings.LastIndex(addr, ":"); i >= 0 {
		port, _ = strconv.Atoi(addr[i+1:])
	}
	key := fmt.Sprintf("%s:%d", host, port)
	l := &Listener{net: n, key: key, addr: &net.TCPAddr{IP: n.HostIP(host), Port: port}}
	l.cond = sync.NewCond(&l.mu)
	n.mu.Lock()
	defer n.mu.Unlock()
	if _, dup := n.listeners[key]; dup {
		return nil, fmt.Errorf("simnet: address %s already in use", key)
	}
	n.listeners[key] = l
	return l, nil
}

// Dial connects the calling node to addr ("host:port").
func (n *Net) Dial(addr string, timeout time.Duration) (*Conn, error) {
	n.mu.Lock()
	n.Dials = append(n.Dials, addr)
	hook := n.DialHook
	l := n.listeners[addr]
	refuse := n.Refuse[addr]
	black := n.Blackhole[addr]
	n.mu.Unlock()
	if hook != nil {
		hook(addr)
	}
	if black {
		n.Sim.Fault("net.blackhole")
		if timeout <= 0 {
			timeout = time.Hour
		}
		time.Sleep(timeout)
		// several such dials time out at the same instant: each goes back under
		// the controller before it runs on (otherwise they run side by side
		// until their next scheduling point)
		verifsim.Yield("net/blackhole-timeout")
		return nil, fmt.Errorf("dial tcp %s: i/o timeout", addr)
	}
	if l == nil || refuse {
		if refuse {
			n.Sim.Fault("net.refuse")
		}
		return nil, fmt.Errorf("dial tcp %s: connect: connection refused", addr)
	}
	from := "client"
	if nd := verifsim.CurrentNode(); nd != nil {
		from = nd.Hostname
	}
	n.mu.Lock()
	lport := n.NextLocalPort
	n.NextLocalPort = 0
	if lport == 0 {
		n.nextPort++
		lport = n.nextPort
	}
	id := len(n.conns)/2 + 1
	a2b, b2a := newHalf(), newHalf()
	cli := &Conn{ID: id, net: n, in: b2a, out: a2b, label: fmt.Sprintf("c%d:c2s", id),
		local: &net.TCPAddr{IP: n.hostIPLocked(from), Port: lport}, remote: l.addr}
	srv := &Conn{ID: id, net: n, in: a2b, out: b2a, label: fmt.Sprintf("c%d:s2c", id),
		local: l.addr, remote: cli.local}
	cli.peer, srv.peer = srv, cli
	host := addr
	if i := strings.LastIndex(addr, ":"); i >= 0 {
		host = addr[:i]
	}
	if ms, ok := n.Prof.ConnLatency[host]; ok {
		cli.extraLat = time.Duration(ms) * time.Millisecond
		srv.extraLat = cli.extraLat
	}
	n.conns = append(n.conns, cli, srv)
	n.mu.Unlock()
	l.mu.Lock()
	l.queue = append(l.queue, srv)
	l.cond.Broadcast()
	l.mu.Unlock()
	return cli, nil
}

func (n *Net) hostIPLocked(name string) net.IP {
	if ip, ok := n.hosts[name]; ok {
		return ip
	}
	return net.IPv4(10, 9, 9, 9)
}

// SSHDial replaces ssh.Dial.
func SSHDial(network, addr string, config *ssh.ClientConfig) (*ssh.Client, error) {
	n := cur
	if n == nil {
		return nil, errors.New("simnet: no network installed")
	}
	conn, err := n.Dial(addr, config.Timeout)
	if err != nil {
		return nil, err
	}
	c, chans, reqs, err := ssh.NewClientConn(conn, addr, config)
	if err != nil {
		conn.Close()
		return nil, err
	}
	return ssh.NewClient(c, chans, reqs), nil
}

// LookupIP replaces net.LookupIP.
func LookupIP(host string) ([]net.IP, error) {
	n := cur
	if n == nil {
		return nil, errors.New("simnet: no network installed")
	}
	n.mu.Lock()
	defer n.mu.Unlock()
	if n.ZoneFail[host] {
		n.Sim.Fault("dns.fail")
		return nil, &net.DNSError{Err: "no such host", Name: host, IsNotFound: true}
	}
	if ips, ok := n.Zone[host]; ok {
		if len(ips) > 1 {
			n.Sim.Fault("dns.multi")
		}
		return ips, nil
	}
	if ip := net.ParseIP(host); ip != nil {
		return []net.IP{ip}, nil
	}
	if ip, ok := n.hosts[host]; ok {
		return []net.IP{ip}, nil
	}
	return nil, &net.DNSError{Err: "no such host", Name: host, IsNotFound: true}
}

// HasListener reports whether something listens on addr.
func (n *Net) HasListener(addr string) bool {
	n.mu.Lock()
	defer n.mu.Unlock()
	_, ok := n.listeners[addr]
	return ok
}

// NetDial / NetDialTimeout / DialerDial / DialerDialContext replace net.Dial,
// net.DialTimeout and the methods of net.Dialer in dtail code: however the
// code opens its TCP connections, they end on the simulated network.
func NetDial(network, addr string) (net.Conn, error) { return NetDialTimeout(network, addr, 0) }

func NetDialTimeout(network, addr string, timeout time.Duration) (net.Conn, error) {
	n := cur
	if n == nil {
		return nil, errors.New("simnet: no network installed")
	}
	c, err := n.Dial(addr, timeout)
	if err != nil {
		return nil, err
	}
	return c, nil
}

func DialerDial(timeout time.Duration, network, addr string) (net.Conn, error) {
	return NetDialTimeout(network, addr, timeout)
}

func DialerDialContext(timeout time.Duration, ctx context.Context, network, addr string) (net.Conn, error) {
	if err := ctx.Err(); err != nil {
		return nil, &net.OpError{Op: "dial", Net: network, Err: err}
	}
	if dl, ok := ctx.Deadline(); ok {
		if d := time.Until(dl); timeout <= 0 || d < timeout {
			timeout = d
		}
		if timeout <= 0 {
			return nil, &net.OpError{Op: "dial", Net: network, Err: context.DeadlineExceeded}
		}
	}
	return NetDialTimeout(network, addr, timeout)
}
