package pool

import "sync"

// VerifReset empties the pools (between simulated runs): what a pool holds is
// process state, and with statement-level preemption points a pool hit and a
// pool miss execute different statements.
func VerifReset() {
	BuilderBuffer = sync.Pool{New: BuilderBuffer.New}
	BytesBuffer = sync.Pool{New: BytesBuffer.New}
}
