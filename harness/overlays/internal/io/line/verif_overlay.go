package line

import "sync"

// VerifReset empties the line pool (between simulated runs), see pool.VerifReset.
func VerifReset() {
	lineBuffer = sync.Pool{New: lineBuffer.New}
}
