package loggers

// VerifResetFactory forgets cached logger singletons (between simulated runs).
func VerifResetFactory() {
	factoryMutex.Lock()
	defer factoryMutex.Unlock()
	factoryMap = nil
}
