package dlog

// Overlay file added by /verif to the scratch copy only (never in /repo).

import (
	"context"
	"strconv"
	"strings"
	"sync"
	"sync/atomic"
	"time"

	"github.com/mimecast/dtail/internal/config"
	"github.com/mimecast/dtail/internal/io/dlog/loggers"
	"github.com/mimecast/dtail/internal/source"
	"github.com/mimecast/dtail/internal/verifsim"
)

// VerifStart is Start without signal handling and log rotation (both are
// fatal inside a synctest bubble). With separateServer the Server logger is
// the one of a dserver process (logger none, level info) instead of the
// client's server-package logger (serverless mode).
func VerifStart(ctx context.Context, wg *sync.WaitGroup, sourceProcess source.Source,
	separateServer bool) {

	mutex.Lock()
	defer mutex.Unlock()

	Client = new(sourceProcess, source.Client)
	Server = new(sourceProcess, source.Server)
	if separateServer {
		hostname, _ := config.Hostname()
		Server = &DLog{
			logger:        &verifCapture{},
			sourceProcess: source.Server,
			sourcePackage: source.Server,
			maxLevel:      newLevel(config.DefaultLogLevel),
			hostname:      hostname,
		}
	}
	Common = Client
	if sourceProcess == source.Server {
		Common = Server
	}

	var wg2 sync.WaitGroup
	wg2.Add(2)
	// spawned the way the instrumenter spawns goroutines, so that their keys are
	// structural (child index of the starter) and not their arrival order
	tc, ts, tw := verifsim.BeforeGo(), verifsim.BeforeGo(), verifsim.BeforeGo()
	go func() {
		verifsim.GoStart(tc, "io/dlog/verif_overlay.go/client-logger")
		Client.start(ctx, &wg2)
	}()
	go func() {
		verifsim.GoStart(ts, "io/dlog/verif_overlay.go/server-logger")
		Server.start(ctx, &wg2)
	}()
	go func() {
		verifsim.GoStart(tw, "io/dlog/verif_overlay.go/logger-wait")
		wg2.Wait()
		wg.Done()
	}()
	started = true
}

// VerifCommon replaces the selector dlog.Common: code running on a server
// node logs with the server logger, everything else with the client logger.
func VerifCommon() *DLog {
	if n := verifsim.CurrentNode(); n != nil && n.Kind == "server" && Server != nil {
		return Server
	}
	if Common != nil {
		return Common
	}
	return Client
}

// VerifReset forgets the started loggers (between simulated runs).
func VerifReset() {
	mutex.Lock()
	defer mutex.Unlock()
	started = false
	Client, Server, Common = nil, nil, nil
	verifReported.Store(0)
	verifReportedSeen.Store(false)
	loggers.VerifResetFactory()
}

// verifCapture is the logger of a simulated dserver process: it drops
// everything but remembers the number of open connections the server reported
// last (the STATS record it writes at every change and every 10 s). C14 reads
// the server's own count from there - the number an operator sees - and not
// from a private field.
type verifCapture struct{}

var verifReported atomic.Int64
var verifReportedSeen atomic.Bool

func (*verifCapture) note(message string) {
	const key = "currentConnections="
	i := strings.Index(message, key)
	if i < 0 {
		return
	}
	rest := message[i+len(key):]
	if j := strings.IndexAny(rest, "|\n "); j >= 0 {
		rest = rest[:j]
	}
	if n, err := strconv.ParseInt(rest, 10, 64); err == nil {
		verifReported.Store(n)
		verifReportedSeen.Store(true)
	}
}

func (c *verifCapture) Start(ctx context.Context, wg *sync.WaitGroup) { wg.Done() }
func (c *verifCapture) Log(now time.Time, message string)             { c.note(message) }
func (c *verifCapture) LogWithColors(now time.Time, message, coloredMessage string) {
	c.note(message)
}
func (c *verifCapture) Raw(now time.Time, message string) { c.note(message) }
func (c *verifCapture) RawWithColors(now time.Time, message, coloredMessage string) {
	c.note(message)
}
func (*verifCapture) Flush()               {}
func (*verifCapture) Pause()               {}
func (*verifCapture) Resume()              {}
func (*verifCapture) Rotate()              {}
func (*verifCapture) SupportsColors() bool { return false }

// VerifReportedConnections returns the currentConnections value of the last
// STATS record of the simulated dserver (ok false: none written yet).
func VerifReportedConnections() (n int, ok bool) {
	return int(verifReported.Load()), verifReportedSeen.Load()
}
