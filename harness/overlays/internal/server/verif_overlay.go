package server

// VerifCurrentConnections exposes the server's own connection counter.
func (s *Server) VerifCurrentConnections() int {
	s.stats.mutex.Lock()
	defer s.stats.mutex.Unlock()
	return s.stats.currentConnections
}
