#!/bin/bash
# usage: seeded_regress.sh [budget] [name-filter]  — applies every kept seeded change in turn, runs the property's
# quick check, reverts; prints one line per change and a summary. /repo must be clean and unused meanwhile.
budget=${1:-0}; filt=${2:-}
cd /verif || exit 2
out=/tmp/seeded_regress.txt; : > $out
for d in seeded/*/; do
  name=$(basename $d)
  [ -n "$filt" ] && [[ "$name" != *$filt* ]] && continue
  prop=$(python3 -c "import json;print(json.load(open('$d/meta.json'))['property'])")
  if python3 -c "import json,sys;sys.exit(0 if json.load(open('$d/meta.json')).get('superseded') else 1)"; then echo "$name $prop SUPERSEDED (neutralised by a later fix, see meta.json)" | tee -a $out; continue; fi
  if [ -n "$(git -C /repo status --porcelain)" ]; then echo "/repo not clean"; exit 2; fi
  if ! git -C /repo apply --check $PWD/$d/patch.diff 2>/dev/null; then echo "$name $prop DOES-NOT-APPLY" | tee -a $out; continue; fi
  git -C /repo apply $PWD/$d/patch.diff
  cp evidence/$prop.json /tmp/sr.evidence 2>/dev/null
  if [ "$budget" = 0 ]; then ./dsim check $prop > /tmp/sr.out 2>&1; else ./dsim check $prop --budget $budget > /tmp/sr.out 2>&1; fi
  rc=$?
  git -C /repo checkout -- .; git -C /repo clean -fdq internal cmd 2>/dev/null
  cp /tmp/sr.evidence evidence/$prop.json 2>/dev/null
  nv=$(grep -c "^VIOLATION" /tmp/sr.out)
  cls=$(grep -A1 "^VIOLATION" /tmp/sr.out | grep -v "^VIOLATION\|^--" | sed 's/^ *//' | cut -d: -f1 | sort | uniq -c | sort -rn | head -2 | awk '{printf "%s(%s) ", $2, $1}')
  res=MISSED; [ $rc = 1 ] && res=caught; [ $rc = 2 ] && res=TROUBLE
  echo "$name $prop $res rc=$rc violations=$nv $cls" | tee -a $out
  find /verif/replays -name "$prop-*.json" -delete 2>/dev/null
  # a seeded change may put its temporary files elsewhere (w11-C15: os.TempDir())
  find /tmp -maxdepth 1 -name 'result.csv.*.tmp' -delete 2>/dev/null
done
echo "== $(grep -c ' caught ' $out) caught, $(grep -c ' MISSED ' $out) missed, $(grep -c ' TROUBLE ' $out) trouble, $(grep -c 'DOES-NOT-APPLY' $out) do not apply, $(grep -c ' SUPERSEDED ' $out) superseded"
