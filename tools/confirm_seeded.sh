#!/bin/bash
# usage: confirm_seeded.sh <seeded-dir> <package-dir-for-demo-test>
# Confirms in a scratch worktree: patch applies and builds, existing suite passes with it,
# the demonstration test passes without the patch and fails with it.
set -u
sd=$1; pkg=$2
export GOFLAGS=-mod=mod GOPROXY=off GOSUMDB=off
wt=/tmp/confirm-$$
git -C /repo worktree add -q --detach $wt HEAD || exit 2
cd $wt
ok=1
for t in $sd/*_test.go.txt; do cp $t $pkg/$(basename ${t%.txt}); done
go test -vet=off -count=1 ./$pkg/ > /tmp/confirm.out 2>&1 && echo "demo without change: PASS" || { echo "demo without change: FAIL (unexpected)"; tail -5 /tmp/confirm.out; ok=0; }
git apply $sd/patch.diff || { echo "patch does not apply"; ok=0; }
go build ./... || { echo "build fails"; ok=0; }
go test -vet=off -count=1 ./$pkg/ > /tmp/confirm.out 2>&1 && { echo "demo with change: PASS (unexpected)"; ok=0; } || echo "demo with change: FAIL (expected): $(grep -m2 -- '--- FAIL' /tmp/confirm.out | tr '\n' ' ')"
for t in $sd/*_test.go.txt; do rm -f $pkg/$(basename ${t%.txt}); done
go test -vet=off -count=1 ./... > /tmp/confirm.out 2>&1 && echo "existing suite with change: PASS" || { echo "existing suite with change: FAIL"; grep -E "^(FAIL|---)" /tmp/confirm.out | head; ok=0; }
cd /; git -C /repo worktree remove --force $wt
[ $ok = 1 ] && echo "CONFIRMED $sd" || echo "NOT CONFIRMED $sd"
