#!/usr/bin/env python3
"""Cross-check of the C01 and C03 reference models against the REAL binaries.

Not part of any verdict (the deciding technique is the simulator). It answers a
different question: do the reference models used as oracles (`splitAtMLL` /
`permittedOutput` in c01.go, `refGrep` in c03.go) describe what the shipped
dcat/dgrep binaries do on ordinary executions? The models are re-implemented
here in Python, independently of the Go harness.

  tools/crosscheck_real.py [N]     builds dcat/dgrep from /repo into a scratch
                                   dir, runs N random cases each, prints a summary,
                                   writes crosscheck_real.json, exit 1 on mismatch
"""
import json, os, random, re, shutil, subprocess, sys, tempfile

REPO = os.environ.get("VERIF_REPO", "/repo")
VERIF = os.path.dirname(os.path.dirname(os.path.abspath(__file__)))
ENV = dict(os.environ, GOFLAGS="-mod=mod", GOPROXY="off", GOSUMDB="off")


def permitted(content: bytes, out: bytes, mll: int) -> bool:
    """out == content with '\n' inserted at a subset of positions following k*mll non-newline bytes"""
    # simple DP over (i, j)
    from functools import lru_cache
    sys.setrecursionlimit(1000000)
    n, m = len(content), len(out)
    # iterative with explicit stack of alternatives
    stack = [(0, 0, 0, False)]
    seen = set()
    while stack:
        i, j, run, just = stack.pop()
        while True:
            boundary = run > 0 and run % mll == 0 and not just
            if boundary:
                key = (i, j)
                if key in seen:
                    break
                seen.add(key)
                if j < m and out[j] == 10:
                    stack.append((i, j + 1, run, True))
            just = False
            if i == n:
                if j == m:
                    return True
                break
            if j >= m or content[i] != out[j]:
                break
            run = 0 if content[i] == 10 else run + 1
            i += 1
            j += 1
    return False


def ref_grep(sel, before, after, mx):
    n = len(sel)
    stop = n
    if mx > 0:
        c = 0
        for i in range(n):
            if sel[i]:
                c += 1
                if c == mx + 1:
                    stop = i
                    break
    out = [False] * n
    for i in range(stop):
        if not sel[i]:
            continue
        out[i] = True
        for j in range(max(0, i - before), i):
            out[j] = True
        for j in range(i + 1, min(stop, i + after + 1)):
            out[j] = True
    return [i for i in range(n) if out[i]]


def main():
    ncases = int(sys.argv[1]) if len(sys.argv) > 1 else 60
    rnd = random.Random(int(os.environ.get("VERIF_SEED", "20261004")))
    d = tempfile.mkdtemp(prefix="dsim-cross-")
    try:
        for b in ("dcat", "dgrep"):
            r = subprocess.run(["go", "build", "-o", os.path.join(d, b), "./cmd/" + b], cwd=REPO, env=ENV,
                               capture_output=True, text=True)
            if r.returncode != 0:
                print("build failed", r.stderr)
                return 2
        cfg = os.path.join(d, "cfg.json")
        bad = []
        ok1 = ok3 = 0
        # ---- C01 -----------------------------------------------------------
        for k in range(ncases):
            mll = rnd.choice([8, 64, 1024])
            json.dump({"Server": {"MaxLineLength": mll}}, open(cfg, "w"))
            nl = rnd.randint(0, 30)
            lines = []
            for _ in range(nl):
                ln = rnd.choice([0, 1, mll - 1, mll, mll + 1, 2 * mll, rnd.randint(0, 100), 40000])
                # avoid the open known findings: byte 0xAC, leading '.'
                body = bytes(rnd.choice(b"abcdefghijklmnopqrstuvwxyz 0123456789|;:\t\xc3\xa9") for _ in range(ln))
                lines.append(body)
            content = b"\n".join(lines) + (b"\n" if rnd.random() < 0.7 and lines else b"")
            f = os.path.join(d, "in.txt")
            open(f, "wb").write(content)
            r = subprocess.run([os.path.join(d, "dcat"), "--plain", "--cfg", cfg, f], stdin=subprocess.DEVNULL,
                               capture_output=True, env=dict(os.environ, HOME=d))
            out = r.stdout
            # known finding F-C01-longline-warning: strip exactly those records
            out = re.sub(rb"(CLIENT|SERVER)\|[^|\n]*\|WARN\|[^\n]*Long log line, splitting into multiple lines\n", b"", out)
            if r.returncode != 0 or not permitted(content, out, mll):
                bad.append({"check": "C01", "mll": mll, "content_len": len(content), "rc": r.returncode, "out_len": len(out)})
            else:
                ok1 += 1
        # ---- C03 -----------------------------------------------------------
        for k in range(ncases):
            n = rnd.randint(0, 40)
            sel = [rnd.random() < 0.4 for _ in range(n)]
            lines = ["%d:%s" % (i + 1, "M" if s else "U") for i, s in enumerate(sel)]
            before, after, mx = rnd.choice([0, 1, 3, 50]), rnd.choice([0, 1, 2, 50]), rnd.choice([0, 0, 1, 2, 5])
            inv = rnd.random() < 0.3
            f = os.path.join(d, "g.txt")
            open(f, "w").write("".join(l + "\n" for l in lines))
            args = [os.path.join(d, "dgrep"), "--plain", "--cfg", "none", "-regex", "M", "-before", str(before), "-after", str(after), "-max", str(mx)]
            if inv:
                args.append("-invert")
            r = subprocess.run(args + [f], stdin=subprocess.DEVNULL, capture_output=True, text=True, env=dict(os.environ, HOME=d))
            eff = [s != inv for s in sel]
            want = "".join(lines[i] + "\n" for i in ref_grep(eff, before, after, mx))
            got = "".join(l + "\n" for l in r.stdout.split("\n") if l and not l.startswith(("CLIENT|", "SERVER|")))
            if got != want:
                bad.append({"check": "C03", "lines": lines, "before": before, "after": after, "max": mx, "invert": inv, "got": got[:200], "want": want[:200]})
            else:
                ok3 += 1
        res = {"cases_per_check": ncases, "c01_agree": ok1, "c03_agree": ok3, "disagreements": bad[:10]}
        json.dump(res, open(os.path.join(VERIF, "crosscheck_real.json"), "w"), indent=1)
        print("crosscheck_real: C01 %d/%d agree, C03 %d/%d agree" % (ok1, ncases, ok3, ncases))
        for b in bad[:5]:
            print("  DISAGREE", json.dumps(b)[:300])
        return 1 if bad else 0
    finally:
        shutil.rmtree(d, ignore_errors=True)


if __name__ == "__main__":
    sys.exit(main())
