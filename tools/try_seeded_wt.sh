#!/bin/bash
# usage: try_seeded_wt.sh <patch.diff> <PROP> [budget]  — like try_seeded.sh but leaves /repo's working tree alone:
# the change is applied to a scratch worktree of /repo's HEAD and the check builds from there (VERIF_REPO).
set -u
patch=$1; prop=$2; budget=${3:-25}
wt=/tmp/try-wt-$$
git -C /repo worktree add -q --detach $wt HEAD || exit 2
trap 'git -C /repo worktree remove --force $wt 2>/dev/null' EXIT
git -C $wt apply "$patch" || { echo "patch does not apply"; exit 2; }
cd /verif
cp evidence/$prop.json /tmp/try_seeded_wt.evidence 2>/dev/null
VERIF_REPO=$wt ./dsim check "$prop" --budget "$budget" > /tmp/try_seeded_wt.out 2>&1
rc=$?
cp /tmp/try_seeded_wt.evidence evidence/$prop.json 2>/dev/null
echo "rc=$rc"
grep -E "^(VIOLATION|SUMMARY|HARNESS|BUILD)" /tmp/try_seeded_wt.out | head -6
grep -A1 "^VIOLATION" /tmp/try_seeded_wt.out | grep -v "^VIOLATION\|^--" | cut -c1-260 | sort | uniq -c | sort -rn | head -4
find /verif/replays -name "$prop-*.json" -mmin -30 -delete 2>/dev/null
# a seeded change may put its temporary files elsewhere (w11-C15: os.TempDir())
find /tmp -maxdepth 1 -name 'result.csv.*.tmp' -delete 2>/dev/null
exit 0
