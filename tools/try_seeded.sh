#!/bin/bash
# usage: try_seeded.sh <patch.diff> <PROP> [budget]  — applies a seeded change to /repo, runs the check, reverts.
set -u
patch=$1; prop=$2; budget=${3:-25}
cd /repo || exit 2
if [ -n "$(git status --porcelain)" ]; then echo "/repo not clean"; exit 2; fi
git apply "$patch" || { echo "patch does not apply"; exit 2; }
cd /verif
cp evidence/$prop.json /tmp/try_seeded.evidence 2>/dev/null
./dsim check "$prop" --budget "$budget" > /tmp/try_seeded.out 2>&1
rc=$?
git -C /repo checkout -- .
# the evidence file describes the unchanged tree, not the mutated one
cp /tmp/try_seeded.evidence evidence/$prop.json 2>/dev/null
git -C /repo clean -fdq internal cmd 2>/dev/null
echo "rc=$rc"
grep -E "^(VIOLATION|SUMMARY|HARNESS|BUILD)" /tmp/try_seeded.out | head -6
grep -A1 "^VIOLATION" /tmp/try_seeded.out | grep -v "^VIOLATION\|^--" | cut -c1-260 | sort | uniq -c | sort -rn | head -4
# replay files written against a mutated tree are not kept
find /verif/replays -name "$prop-*.json" -newer /tmp/try_seeded.out -delete 2>/dev/null
find /verif/replays -name "$prop-*.json" -mmin -30 -delete 2>/dev/null
# a seeded change may put its temporary files elsewhere (w11-C15: os.TempDir())
find /tmp -maxdepth 1 -name 'result.csv.*.tmp' -delete 2>/dev/null
exit 0
