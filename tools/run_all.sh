#!/bin/bash
# usage: run_all.sh [quick|thorough] [seed]  — every registered check on the current /repo tree; evidence files are rewritten
tier=${1:-quick}; seed=${2:-20261004}
cd /verif || exit 2
if [ -n "$(git -C /repo status --porcelain)" ]; then echo "/repo not clean"; exit 2; fi
rc=0
for p in C01 C02 C03 C04 C05 C06 C07 C08 C09 C10 C12 C13 C14 C15 C16 C17 C18; do
  VERIF_SEED=$seed ./dsim check $p --tier $tier > /tmp/run_all.$p.out 2>&1; r=$?
  grep -E "^(SUMMARY|VIOLATION|HARNESS-TROUBLE|BUILD)" /tmp/run_all.$p.out | cut -c1-300
  [ $r != 0 ] && rc=$r
done
exit $rc
