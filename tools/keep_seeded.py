#!/usr/bin/env python3
"""keep_seeded.py <name> <PROP> <change-dir> <caught:yes|no> <needs> <ran>  — store a confirmed seeded change under /verif/seeded/<name>/"""
import sys, os, shutil, json
name, prop, src, caught, needs, ran = sys.argv[1:7]
dst = os.path.join('/verif/seeded', name)
os.makedirs(dst, exist_ok=True)
for f in os.listdir(src):
    p = os.path.join(src, f)
    if os.path.isdir(p):
        for g in os.listdir(p):
            shutil.copy(os.path.join(p, g), os.path.join(dst, g + ('.txt' if g.endswith('_test.go') else '')))
    else:
        shutil.copy(p, os.path.join(dst, f))
meta = {"property": prop, "origin": "independent sub-agent given only the property text and a scratch worktree",
        "needs": needs, "ran": ran, "confirmed": "applied in a scratch worktree: go build ok, go test ./... ok, demonstration fails with the change and passes without it",
        "caught_by": [prop + " quick"] if caught == "yes" else [], "caught": caught == "yes"}
json.dump(meta, open(os.path.join(dst, 'meta.json'), 'w'), indent=1)
print("kept", dst, os.listdir(dst))
