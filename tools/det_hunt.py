#!/usr/bin/env python3
"""Determinism hunt: run the same (property, seed) in many oversubscribed
processes, keep the full labelled decision trace of each, and print the first
difference between the majority trace and each deviating one.

  tools/det_hunt.py C14 [procs=400] [parallel=64] [seed=7] [maxruns=1]
"""
import glob, os, shutil, subprocess, sys, tempfile, collections

VERIF = os.path.dirname(os.path.dirname(os.path.abspath(__file__)))


def main():
    prop = sys.argv[1]
    procs = int(sys.argv[2]) if len(sys.argv) > 2 else 400
    par = int(sys.argv[3]) if len(sys.argv) > 3 else 64
    seed = sys.argv[4] if len(sys.argv) > 4 else "7"
    maxruns = sys.argv[5] if len(sys.argv) > 5 else "1"
    bins = sorted(glob.glob(os.path.join(VERIF, ".cache/bin/*/dsim.test")), key=os.path.getmtime)
    binp = bins[-1]
    root = tempfile.mkdtemp(prefix="dsim-dethunt-", dir="/dev/shm")
    try:
        env = dict(os.environ, GODEBUG="asyncpreemptoff=1", GOMAXPROCS="1", VERIF_PROP=prop, VERIF_MODE="trace",
                   VERIF_FINDINGS=os.path.join(VERIF, "known_findings.jsonl"), VERIF_SEED=seed, VERIF_MAXRUNS=maxruns,
                   VERIF_TRACE_DUMP=root)
        running, outs = [], {}
        def reap(block):
            nonlocal running
            keep = []
            for p in running:
                if block or p.poll() is not None:
                    o, _ = p.communicate()
                    outs[p.pid] = tuple(l for l in o.splitlines() if l.startswith("TRACE "))
                else:
                    keep.append(p)
            running = keep
        import time
        for i in range(procs):
            while len(running) >= par:
                reap(False); time.sleep(0.005)
            d = os.path.join(root, "d%d" % i); os.makedirs(d)
            running.append(subprocess.Popen([binp, "-test.run", "^TestWorker$", "-test.timeout", "0"], env=env, cwd=d,
                                            stdout=subprocess.PIPE, stderr=subprocess.STDOUT, text=True))
        reap(True)
        cnt = collections.Counter(outs.values())
        print("distinct logs:", len(cnt), [v for _, v in cnt.most_common()])
        if len(cnt) <= 1:
            return 0
        major = cnt.most_common(1)[0][0]
        mpid = next(pid for pid, o in outs.items() if o == major)
        for pid, o in outs.items():
            if o == major:
                continue
            for i in range(int(maxruns)):
                fa = os.path.join(root, "trace-%d-%d.txt" % (mpid, i)); fb = os.path.join(root, "trace-%d-%d.txt" % (pid, i))
                if not (os.path.exists(fa) and os.path.exists(fb)):
                    continue
                a = open(fa).read().splitlines(); b = open(fb).read().splitlines()
                for j in range(min(len(a), len(b))):
                    if a[j] != b[j]:
                        print("--- pid %d run %d first difference at decision %d (of %d/%d)" % (pid, i, j, len(a), len(b)))
                        for k in range(max(0, j - 12), min(len(a), len(b), j + 6)):
                            mark = " " if a[k] == b[k] else "!"
                            print("%s A %s" % (mark, a[k][:260]))
                            if a[k] != b[k]:
                                print("%s B %s" % (mark, b[k][:260]))
                        break
        return 1
    finally:
        shutil.rmtree(root, ignore_errors=True)


if __name__ == "__main__":
    sys.exit(main())
