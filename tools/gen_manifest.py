#!/usr/bin/env python3
"""Generates /verif/MANIFEST.json from the table below (keeps it valid and in step with the checks)."""
import json, os
V = os.path.dirname(os.path.dirname(os.path.abspath(__file__)))
ids = [json.loads(l)["id"] for l in open(os.path.join(V, "properties.jsonl"))]

NOTE = ("Trusted base: the AST instrumenter (yield insertion, select rewrite, map-range rewrite are semantics preserving), "
        "testing/synctest fake clock of go1.26.8 with GOMAXPROCS=1, the harness replica of cmd/*/main.go, simnet instead of TCP. "
        "Search, not proof: bounded by the generators described in DESIGN.md.")

C = {
 "C01": ("exploration", "5 C01",
   "Seeded simulation of whole dcat sessions (serverless and real x/crypto/ssh over the simulated network) over generated file contents, "
   "MaxLineLength values, compression formats, network segmentations and schedules; byte-exact comparison with a 12-line reference splitter. "
   "Right level because fidelity depends on where transport reads and packets split, which only a controlled transport can vary reproducibly.",
   "deterministic simulation: seeded schedules + simulated network segmentation, reference-model oracle"),
 "C02": ("exploration", "5 C02",
   "Seeded simulation of cat/grep sessions with consumer stalls placed around end-of-file, delayed later commands, limiter queueing and "
   "schedule perturbation at the shutdown handshake; oracle: per file exactly-once in order, exit by itself with status 0 within a bound after the last stall.",
   "deterministic simulation: seeded schedules, stall faults at the consumer and between commands, exactly-once oracle + bounded liveness"),
 "C03": ("exploration", "5 C03",
   "Exhaustive enumeration of all match/non-match files up to 5 (quick) / 7 (thorough) lines x before/after/max in 0..3 x invert, plus seeded random files, "
   "RE2 patterns and context values, each executed as a real dgrep session under a seeded schedule (5 % over SSH) and compared with a reference grep written from the statement. "
   "Input-dominated property: the simulator contributes the reader/filter pipeline schedules; the small scope is exhaustive, the rest is sampled.",
   "deterministic simulation executing exhaustive small-scope + seeded random inputs; reference-grep oracle"),
 "C07": ("exploration", "5 C07",
   "Seeded simulation of non-plain sessions against 1-5 real dservers over the simulated network with per-server latency, chunking and pacing; every output record must be "
   "exactly one generated line labelled with its host, glob-derived source id and running number, per (host,file) complete and in order.",
   "deterministic simulation: several SSH servers on a simulated network, per-source delays, record-attribution oracle"),
 "C12": ("exploration", "5 C12",
   "End-to-end differential: generated regexes/flags/option values travel through option serialisation (map order is a simulator decision), base64, stream segmentation down to "
   "1 byte and the server's re-assembly; the delivered lines must equal a reference grep applied to the pattern compiled directly by the harness, and the output mode must be the one requested.",
   "deterministic simulation: seeded request generation x stream segmentation x map-order decisions, direct-compile differential oracle"),
 "C04": ("exploration", "5 C04",
   "Seeded simulation of dtail follows: a simulated writer appends tagged lines in write() calls of arbitrary size and spacing (fake clock: 100 ms polling, 3 s truncation check), "
   "consumer pacing and schedules vary; the follow start is read from /proc/self/fdinfo; oracle: appended lines exactly once, in order, unmodified, old content never, "
   "losses only with a < 100 % indication and never when the session selected fewer than 100 lines.",
   "deterministic simulation: simulated writer task + fake clock + consumer stalls, tail reference model"),
 "C13": ("exploration", "5 C13",
   "Seeded histories of concurrent SSH sessions (cat over globs, tails) against one real dserver with small limits, resets and closes placed relative to the limiter by fake time and "
   "schedule decisions; after every step touching the read path the number of scenario files held open by the process (/proc/self/fd) is compared with the limit; "
   "liveness: non-cancelled sessions get all files; a second wave of held reads counts the usable slots (leak / double release).",
   "deterministic simulation: session/cancel histories x limiter-select schedules, step-wise counting invariant"),
 "C14": ("exploration", "5 C14",
   "Seeded histories and bursts of SSH connections of every kind (good/bad credentials, health, no channel, no shell, two shells, two channels, unknown request, resets at each "
   "handshake stage) against a real dserver; a counting reference model (connections actually open on the simulated network) is compared with the server's own count and with "
   "admission of probe logins while connections are held and after they ended; counter never negative at every 7th step.",
   "deterministic simulation: connection histories with resets on a simulated network, counting reference model"),
 "C06": ("exploration", "5 C06",
   "Seeded simulation of dmap runs over 1-12 (thorough: 40) real dservers or serverless with counts and sums known by construction; schedules are biased to the aggregator's "
   "channel-closed decision, the re-queue goroutine, limiter registration and the client's merge; equal latencies make final batches arrive together; "
   "oracle: conservation per group and termination with status 0 within a bound.",
   "deterministic simulation: seeded schedules at the aggregator/limiter/merge sites, simultaneous delivery on the simulated network, conservation + bounded-liveness oracle"),
 "C15": ("fault_enumeration", "5 C15",
   "Crash-point enumeration inside seeded histories of consecutive dmap client processes on one outfile: the directory content at every yield in front of a file-system "
   "operation of the result writer is classified (absent / earlier complete result / complete current result, query file in step; append: prefix preserved, header once), "
   "and chosen points really kill the process (goroutines exit at their next yield, completed syscalls persist) before the next process starts on the leftovers.",
   "deterministic simulation: kill-point enumeration at file-system yields within seeded process histories, file-state classifier"),
 "C05": ("exploration", "5 C05",
   "Seeded generation of records, abstract queries (rendered through the documented grammar) and partitions over servers x files x serialisation intervals (reader stalls on the fake "
   "clock, map-order decisions, network interleaving); the final CSV is compared with an independent evaluator of the abstract query (where -> set -> group -> aggregate -> order -> limit), "
   "tolerating only float rounding, last/len choice and ties.",
   "deterministic simulation: partition x interval-history x merge-order search, independent reference evaluator"),
 "C10": ("exploration", "5 C10",
   "Seeded generation of hostile byte strings (command words x options x arguments, envelope mutations, ~60 malformed queries with token mutations, regex garbage, random bytes) written "
   "in arbitrary chunks by 1-3 authenticated attacker sessions while a paced victim session runs on the same real dserver; a panic reaching the top of any server goroutine "
   "(= process crash) is caught and reported with its stack; the victim must complete; offending sessions must get a message or be closed within 30 simulated seconds.",
   "deterministic simulation: multi-session hostile-input generation with stream chunking, panic capture at goroutine tops, victim-liveness oracle"),
 "C16": ("exploration", "5 C16",
   "Seeded generation of hostile message streams from 1-3 harness-scripted SSH servers to the five real clients, chunked down to 1 byte; each scenario runs twice with the same "
   "decision trace (colours on / off): no panic may reach the top of a client goroutine and the outputs must agree after removing SGR sequences from both.",
   "deterministic simulation: scripted hostile servers on the simulated network, twin execution under one decision trace (colour on/off), panic capture"),
 "C09": ("exploration", "5 C09",
   "Seeded generation of authorized_keys files (key types, options, comments, blank lines, CRLF), job configurations with AllowFrom names resolved by a simulated resolver, and "
   "concurrent login attempts from several simulated hosts over real SSH handshakes; outcomes are compared with a decision table written from the statement; granted health "
   "sessions are fed arbitrary commands and must never receive file content.",
   "deterministic simulation: multi-party SSH handshakes on the simulated network with simulated DNS, decision-table oracle"),
 "C08": ("exploration", "5 C08",
   "Seeded generation of rule lists, directory trees with symlinks of every kind and requests, executed as concurrent real sessions of several users against one dserver; an independent "
   "evaluator (own symlink walker, regular-file test, last match wins, default deny) decides per request which files may and must be served; any other file's content in the session is a violation. "
   "Configuration-dominated: the simulator contributes concurrent users and real sessions.",
   "deterministic simulation executing generated configurations x layouts x requests as concurrent sessions; independent permission evaluator"),
 "C18": ("exploration", "5 C18",
   "Seeded generation of server lists and files (duplicates, host:port forms, up to thousands of entries) with the client started at clock offsets over 10^6 simulated seconds "
   "(the shuffle is clock seeded); the contacts are observed as dials on the simulated network and must be exactly one per distinct entry. Thin use of the simulator (clock + network "
   "observation); the /regex/ filter is unreachable together with a list in this tree and not covered.",
   "deterministic simulation: simulated clock epoch + dial recording on the simulated network, set-equality oracle"),
 "C17": ("exploration", "5 C17",
   "Seeded histories of consecutive client runs against SSH servers with individual host keys on the simulated network, generated known_hosts files (plain, hashed, multi-host, markers, "
   "wrong keys, comments), scripted user answers and the batching timer on the fake clock; servers record sessions: a session without trust (known_hosts per x/crypto, approval, trust-all) "
   "is a violation, and after each run unrelated known_hosts lines must survive verbatim and new hosts be recorded.",
   "deterministic simulation: multi-run histories with scripted user and simulated clock/network, trust-rule + line-preservation oracle"),
}

checks = []
for pid in ids:
    if pid not in C:
        continue
    level, ref, text, tech = C[pid]
    checks.append({
        "property_id": pid,
        "quick_cmd": "./dsim check %s --tier quick" % pid,
        "thorough_cmd": "./dsim check %s --tier thorough" % pid,
        "evidence_file": "evidence/%s.json" % pid,
        "replay_cmd_template": "./dsim replay {path}",
        "engine": "dsim",
        "level_claimed": {"category": level, "text": text, "design_ref": "DESIGN.md §" + ref},
        "level_note": NOTE,
        "technique": tech,
    })

NA = {
 "C11": "pure function from a query string to a struct: no schedule, clock, I/O, fault or second party for a simulator to control (DESIGN.md §6)",
}
na = []
for pid in ids:
    if pid in C:
        continue
    na.append({"property_id": pid, "reason": NA.get(pid, "not claimed")})

m = {
 "version": 1,
 "setup_cmd": "./dsim setup",
 "hooks": {
   "guard": "scratch-overlay",
   "enable": "no hooks are committed to /repo: every check copies /repo's working tree to a scratch directory, adds overlay files and the harness, "
             "AST-instruments the copy (tools/verifinstr) and builds it with go1.26.8; the shipped tree is never modified",
   "baseline_off_cmd": "cd /repo && GOFLAGS=-mod=mod go test -vet=off -count=1 -timeout 25m ./...",
   "source_commits": [],
   "add_only": True,
 },
 "engines": [{"name": "dsim", "path": "dsim", "serves_properties": sorted(C), "kind_free_text":
              "deterministic simulation with fault injection: seeded controller over AST-inserted yield points, synctest fake clock, simulated network, replay files"}],
 "checks": checks,
 "not_applicable": na,
 "notes": "Fixes committed to /repo are listed in known_findings.jsonl (fixed: lines). Open findings print KNOWN-FINDING lines and exit 0.",
}
json.dump(m, open(os.path.join(V, "MANIFEST.json"), "w"), indent=1)
print("checks:", [c["property_id"] for c in checks])
