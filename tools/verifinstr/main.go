// Command verifinstr instruments a scratch copy of mimecast/dtail for the
// deterministic simulator (see /verif/DESIGN.md §2.2, §2.3). It never touches
// /repo: it is given the root of a scratch copy.
//
//	verifinstr <module-root>
package main

import (
	"bytes"
	"fmt"
	"go/ast"
	"go/format"
	"go/parser"
	"go/token"
	"go/types"
	"os"
	"path/filepath"
	"sort"
	"strings"

	"golang.org/x/tools/go/ast/astutil"
	"golang.org/x/tools/go/packages"
)

const (
	modPath   = "github.com/mimecast/dtail"
	simImport = modPath + "/internal/verifsim"
	netImport = modPath + "/internal/verifsimnet"
)

var stats = map[string]int{}
var warnings []string

func warn(format string, a ...any) { warnings = append(warnings, fmt.Sprintf(format, a...)) }

func main() {
	if len(os.Args) < 2 {
		fmt.Fprintln(os.Stderr, "usage: verifinstr <module-root>")
		os.Exit(2)
	}
	root, _ := filepath.Abs(os.Args[1])
	var patterns []string
	filepath.Walk(filepath.Join(root, "internal"), func(p string, info os.FileInfo, err error) error {
		if err != nil {
			return err
		}
		if info.IsDir() {
			if strings.HasPrefix(info.Name(), "verif") {
				return filepath.SkipDir
			}
			ents, _ := os.ReadDir(p)
			for _, e := range ents {
				if strings.HasSuffix(e.Name(), ".go") && !strings.HasSuffix(e.Name(), "_test.go") {
					rel, _ := filepath.Rel(root, p)
					patterns = append(patterns, "./"+rel)
					break
				}
			}
		}
		return nil
	})
	cfg := &packages.Config{
		Mode: packages.NeedName | packages.NeedFiles | packages.NeedCompiledGoFiles | packages.NeedSyntax |
			packages.NeedTypes | packages.NeedTypesInfo | packages.NeedImports,
		Dir: root,
		Env: append(os.Environ(), "GOFLAGS=-mod=mod", "GOPROXY=off", "GOSUMDB=off"),
	}
	pkgs, err := packages.Load(cfg, patterns...)
	if err != nil {
		fmt.Fprintln(os.Stderr, "load:", err)
		os.Exit(2)
	}
	bad := false
	for _, p := range pkgs {
		for _, e := range p.Errors {
			fmt.Fprintln(os.Stderr, "pkg error:", p.PkgPath, e)
			bad = true
		}
	}
	if bad {
		os.Exit(2)
	}
	for _, p := range pkgs {
		for i, f := range p.Syntax {
			path := p.CompiledGoFiles[i]
			if !strings.HasPrefix(path, root) || strings.HasSuffix(path, "_test.go") {
				continue
			}
			base := filepath.Base(path)
			if strings.HasPrefix(base, "verif_") {
				continue
			}
			rel, _ := filepath.Rel(root, path)
			in := &instr{fset: p.Fset, info: p.TypesInfo, file: f, rel: rel, pkg: p}
			if err := in.run(path); err != nil {
				fmt.Fprintln(os.Stderr, "ERR", path, err)
				os.Exit(2)
			}
		}
	}
	var keys []string
	for k := range stats {
		keys = append(keys, k)
	}
	sort.Strings(keys)
	for _, k := range keys {
		fmt.Printf("instr %-14s %d\n", k, stats[k])
	}
	for _, w := range warnings {
		fmt.Println("instr-warning:", w)
	}
}

type instr struct {
	fset    *token.FileSet
	info    *types.Info
	file    *ast.File
	rel     string
	pkg     *packages.Package
	ctr     int
	useSim  bool
	useNet  bool
	changed bool
}

func simCall(fn string, args ...ast.Expr) *ast.CallExpr {
	return &ast.CallExpr{
		Fun:  &ast.SelectorExpr{X: ast.NewIdent("verifsim"), Sel: ast.NewIdent(fn)},
		Args: args,
	}
}

func simStmt(fn string, args ...ast.Expr) *ast.ExprStmt {
	return &ast.ExprStmt{X: simCall(fn, args...)}
}

func lit(s string) ast.Expr { return &ast.BasicLit{Kind: token.STRING, Value: fmt.Sprintf("%q", s)} }

func (in *instr) site(n ast.Node, suffix string) ast.Expr {
	pos := in.fset.Position(n.Pos())
	rel := strings.TrimPrefix(in.rel, "internal/")
	return lit(fmt.Sprintf("%s:%d%s", rel, pos.Line, suffix))
}

func (in *instr) yield(n ast.Node, suffix string) ast.Stmt {
	in.useSim = true
	stats["yield"]++
	return simStmt("Yield", in.site(n, suffix))
}

// pkgFunc reports whether call is pkgPath.name(...).
func (in *instr) pkgFunc(e ast.Expr) (pkgPath, name string, ok bool) {
	se, ok := e.(*ast.SelectorExpr)
	if !ok {
		return
	}
	id, ok2 := se.X.(*ast.Ident)
	if !ok2 {
		return "", "", false
	}
	if pn, ok3 := in.info.Uses[id].(*types.PkgName); ok3 {
		return pn.Imported().Path(), se.Sel.Name, true
	}
	return "", "", false
}

// methodOn reports the named receiver type ("sync.Mutex", "os.File", ...) of
// a method call expression.
func (in *instr) methodOn(e ast.Expr) (recv, name string, ok bool) {
	se, ok := e.(*ast.SelectorExpr)
	if !ok {
		return
	}
	sel := in.info.Selections[se]
	if sel == nil || sel.Kind() != types.MethodVal {
		return "", "", false
	}
	fn, ok2 := sel.Obj().(*types.Func)
	if !ok2 {
		return "", "", false
	}
	sig := fn.Type().(*types.Signature)
	if sig.Recv() == nil {
		return "", "", false
	}
	t := sig.Recv().Type()
	if p, ok := t.(*types.Pointer); ok {
		t = p.Elem()
	}
	if n, ok := t.(*types.Named); ok && n.Obj().Pkg() != nil {
		return n.Obj().Pkg().Path() + "." + n.Obj().Name(), fn.Name(), true
	}
	return "", "", false
}

func (in *instr) hasRecv(n ast.Node) bool {
	found := false
	ast.Inspect(n, func(x ast.Node) bool {
		switch v := x.(type) {
		case *ast.FuncLit:
			return false
		case *ast.UnaryExpr:
			if v.Op == token.ARROW {
				found = true
			}
		}
		return !found
	})
	return found
}

var fsFuncs = map[string]bool{"OpenFile": true, "Create": true, "Rename": true, "Remove": true,
	"RemoveAll": true, "WriteFile": true, "Truncate": true, "Symlink": true, "Link": true}
var bufMethods = map[string]bool{"Flush": true, "Write": true, "WriteString": true, "WriteByte": true, "WriteRune": true, "ReadFrom": true}
var fsMethods = map[string]bool{"Write": true, "WriteString": true, "WriteAt": true, "Close": true,
	"Truncate": true, "Sync": true}

// hasFSOp reports whether the (non-nested-function part of) node contains a
// file-system mutating call.
func (in *instr) hasFSOp(n ast.Node) bool {
	if n == nil {
		return false
	}
	found := false
	ast.Inspect(n, func(x ast.Node) bool {
		switch v := x.(type) {
		case *ast.FuncLit:
			return false
		case *ast.BlockStmt:
			return false
		case *ast.CallExpr:
			if p, name, ok := in.pkgFunc(v.Fun); ok && p == "os" && fsFuncs[name] {
				found = true
			}
			if r, name, ok := in.methodOn(v.Fun); ok && r == "os.File" && fsMethods[name] {
				found = true
			}
			// buffered and indirect writers: the write-through can happen in any of
			// these calls, so each is a point where the file system may change
			if r, name, ok := in.methodOn(v.Fun); ok && r == "bufio.Writer" && bufMethods[name] {
				found = true
			}
			// the terminal: a write to standard output is a blocking system call
			if p, name, ok := in.pkgFunc(v.Fun); ok && p == "fmt" && (name == "Print" || name == "Println" || name == "Printf") {
				found = true
			}
			if p, name, ok := in.pkgFunc(v.Fun); ok && len(v.Args) > 0 &&
				((p == "fmt" && strings.HasPrefix(name, "Fprint")) || (p == "io" && (name == "WriteString" || name == "Copy" || name == "CopyN" || name == "CopyBuffer"))) {
				if t := in.info.TypeOf(v.Args[0]); t != nil {
					if ts := t.String(); ts == "*os.File" || ts == "*bufio.Writer" {
						found = true
					}
				}
			}
		}
		return !found
	})
	return found
}

func (in *instr) run(path string) error {
	f := in.file
	// keep only comments in front of the package clause (build constraints);
	// the printer misplaces free-floating comments in rewritten code
	var keep []*ast.CommentGroup
	for _, cg := range f.Comments {
		if cg.End() < f.Package {
			keep = append(keep, cg)
		}
	}
	f.Comments = keep
	astutil.Apply(f, in.pre, in.post)
	if !in.changed {
		return nil
	}
	if in.useSim {
		astutil.AddImport(in.fset, f, simImport)
	}
	if in.useNet {
		astutil.AddImport(in.fset, f, netImport)
	}
	// drop imports that became unused because of call-site rewrites
	for _, imp := range []string{"net", "os"} {
		if !astutil.UsesImport(f, imp) {
			astutil.DeleteImport(in.fset, f, imp)
		}
	}
	var buf bytes.Buffer
	if err := format.Node(&buf, in.fset, f); err != nil {
		return err
	}
	return os.WriteFile(path, buf.Bytes(), 0644)
}

func (in *instr) pre(c *astutil.Cursor) bool {
	n := c.Node()
	if n == nil {
		return true
	}
	switch v := n.(type) {
	case *ast.CommClause:
		v.Body = append([]ast.Stmt{in.yield(v, "/case")}, v.Body...)
		in.changed = true
	case *ast.SelectorExpr:
		// os.Stdin in the prompt package -> verifsim.Stdin(): the user's answer is
		// a scheduling point (and can be held back: the user thinks)
		if p, name, ok := in.pkgFunc(v); ok && p == "os" && name == "Stdin" && strings.HasSuffix(in.pkg.PkgPath, "/internal/io/prompt") {
			c.Replace(simCall("Stdin"))
			in.useSim, in.changed = true, true
			stats["rewrite.stdin"]++
			return false
		}
		// dlog.Common -> dlog.VerifCommon()
		if p, name, ok := in.pkgFunc(v); ok && strings.HasSuffix(p, "/internal/io/dlog") && name == "Common" {
			c.Replace(&ast.CallExpr{Fun: &ast.SelectorExpr{X: v.X, Sel: ast.NewIdent("VerifCommon")}})
			stats["rewrite.common"]++
			in.changed = true
			return false
		}
	case *ast.CallExpr:
		if recv, name, ok := in.methodOn(v.Fun); ok && recv == "os.File" && (name == "Write" || name == "WriteString") {
			// the disk seam: fd.Write(b) -> verifsim.FileWrite(fd, b)
			se := v.Fun.(*ast.SelectorExpr)
			fn := "FileWrite"
			if name == "WriteString" {
				fn = "FileWriteString"
			}
			v.Args = append([]ast.Expr{se.X}, v.Args...)
			v.Fun = &ast.SelectorExpr{X: ast.NewIdent("verifsim"), Sel: ast.NewIdent(fn)}
			in.useSim, in.changed = true, true
			stats["rewrite.filewrite"]++
		}
		if recv, name, ok := in.methodOn(v.Fun); ok && recv == "net.Dialer" && (name == "DialContext" || name == "Dial") {
			// d.DialContext(ctx, network, addr) -> verifsimnet.DialerDialContext(d.Timeout, ctx, network, addr)
			se := v.Fun.(*ast.SelectorExpr)
			v.Args = append([]ast.Expr{&ast.SelectorExpr{X: se.X, Sel: ast.NewIdent("Timeout")}}, v.Args...)
			v.Fun = &ast.SelectorExpr{X: ast.NewIdent("verifsimnet"), Sel: ast.NewIdent("Dialer" + name)}
			in.useNet, in.changed = true, true
			stats["rewrite.net"]++
		}
		if p, name, ok := in.pkgFunc(v.Fun); ok {
			switch {
			case p == "net" && name == "Listen":
				v.Fun = &ast.SelectorExpr{X: ast.NewIdent("verifsimnet"), Sel: ast.NewIdent("Listen")}
				in.useNet, in.changed = true, true
				stats["rewrite.net"]++
			case p == "net" && name == "LookupIP":
				v.Fun = &ast.SelectorExpr{X: ast.NewIdent("verifsimnet"), Sel: ast.NewIdent("LookupIP")}
				in.useNet, in.changed = true, true
				stats["rewrite.net"]++
			case p == "net" && (name == "Dial" || name == "DialTimeout"):
				// any other way of opening a TCP connection ends on the simulated
				// network as well (a refactoring of the dial path must not take the
				// system out of the simulation)
				v.Fun = &ast.SelectorExpr{X: ast.NewIdent("verifsimnet"), Sel: ast.NewIdent("Net" + name)}
				in.useNet, in.changed = true, true
				stats["rewrite.net"]++
			case p == "golang.org/x/crypto/ssh" && name == "Dial":
				v.Fun = &ast.SelectorExpr{X: ast.NewIdent("verifsimnet"), Sel: ast.NewIdent("SSHDial")}
				in.useNet, in.changed = true, true
				stats["rewrite.net"]++
			case p == "os" && fsFuncs[name]:
				// the os functions that change the file system go through wrappers
				// that refuse to act for a killed process (verifsim/helpers.go)
				v.Fun = &ast.SelectorExpr{X: ast.NewIdent("verifsim"), Sel: ast.NewIdent("OS" + name)}
				in.useSim, in.changed = true, true
				stats["rewrite.osfs"]++
			case p == "os" && name == "Hostname":
				v.Fun = &ast.SelectorExpr{X: ast.NewIdent("verifsim"), Sel: ast.NewIdent("Hostname")}
				in.useSim, in.changed = true, true
				stats["rewrite.hostname"]++
			}
		}
	}
	st, ok := n.(ast.Stmt)
	if !ok || c.Index() < 0 {
		// statements not in a list (if-init, labeled, ...) are left alone
		if _, isSel := n.(*ast.SelectStmt); isSel && c.Index() < 0 {
			warn("%s: select not in statement list; not rewritten", in.fset.Position(n.Pos()))
		}
		return true
	}
	in.preempt(c, st)
	switch v := st.(type) {
	case *ast.GoStmt:
		in.rewriteGo(c, v)
	case *ast.SelectStmt:
		c.InsertBefore(in.yield(v, "/select"))
		in.changed = true
	case *ast.SendStmt:
		c.InsertBefore(in.yield(v, "/send"))
		c.InsertAfter(in.yield(v, "/sent"))
		in.changed = true
	case *ast.RangeStmt:
		if t := in.info.TypeOf(v.X); t != nil {
			if _, isChan := t.Underlying().(*types.Chan); isChan {
				c.InsertBefore(in.yield(v, "/rangech"))
				v.Body.List = append([]ast.Stmt{in.yield(v, "/ranged")}, v.Body.List...)
				c.InsertAfter(in.yield(v, "/rangeend"))
				in.changed = true
			}
		}
	case *ast.IfStmt:
		if in.hasFSOp(v.Init) || in.hasFSOp(v.Cond) {
			c.InsertBefore(in.fsYield(v))
		}
		if (v.Init != nil && in.hasRecv(v.Init)) || in.hasRecv(v.Cond) {
			c.InsertBefore(in.yield(v, "/recv"))
			in.changed = true
		}
	case *ast.ExprStmt, *ast.AssignStmt, *ast.DeclStmt, *ast.ReturnStmt, *ast.IncDecStmt:
		if es, ok := st.(*ast.ExprStmt); ok {
			if ce, ok := es.X.(*ast.CallExpr); ok {
				if recv, name, ok := in.methodOn(ce.Fun); ok {
					switch {
					case (recv == "sync.Mutex" || recv == "sync.RWMutex") && (name == "Lock" || name == "RLock"):
						c.InsertBefore(in.yield(v, "/lock"))
						c.InsertAfter(simStmt("LockAcquired"))
						in.changed, in.useSim = true, true
						if recv == "sync.Mutex" && name == "Lock" {
							// cooperative mutex: a contended Lock parks in the simulator
							// instead of blocking in the runtime (a goroutine blocked on a
							// sync.Mutex is not durably blocked for synctest)
							ce.Args = []ast.Expr{in.mutexPtr(ce.Fun), in.site(v, "/lockwait")}
							ce.Fun = &ast.SelectorExpr{X: ast.NewIdent("verifsim"), Sel: ast.NewIdent("MutexLock")}
							stats["rewrite.mutex"]++
						}
						return true
					case (recv == "sync.Mutex" || recv == "sync.RWMutex") && (name == "Unlock" || name == "RUnlock"):
						c.InsertBefore(simStmt("LockReleasing"))
						in.changed, in.useSim = true, true
						if recv == "sync.Mutex" && name == "Unlock" {
							ce.Args = []ast.Expr{in.mutexPtr(ce.Fun)}
							ce.Fun = &ast.SelectorExpr{X: ast.NewIdent("verifsim"), Sel: ast.NewIdent("MutexUnlock")}
						}
						return true
					case recv == "sync.WaitGroup" && name == "Wait":
						c.InsertBefore(in.yield(v, "/wait"))
						c.InsertAfter(in.yield(v, "/waited"))
						in.changed = true
						return true
					}
				}
				if p, name, ok := in.pkgFunc(ce.Fun); ok && p == "time" && name == "Sleep" {
					c.InsertBefore(in.yield(v, "/sleep"))
					c.InsertAfter(in.yield(v, "/slept"))
					in.changed = true
					return true
				}
			}
		}
		if in.hasFSOp(st) {
			c.InsertBefore(in.fsYield(st))
		}
		if in.hasRecv(st) {
			c.InsertBefore(in.yield(v, "/recv"))
			if _, isRet := st.(*ast.ReturnStmt); !isRet {
				c.InsertAfter(in.yield(v, "/recvd"))
			}
			in.changed = true
		}
	case *ast.DeferStmt:
		if recv, name, ok := in.methodOn(v.Call.Fun); ok &&
			(recv == "sync.Mutex" || recv == "sync.RWMutex") && (name == "Unlock" || name == "RUnlock") {
			c.InsertAfter(&ast.DeferStmt{Call: simCall("LockReleasing")})
			in.changed, in.useSim = true, true
			if recv == "sync.Mutex" && name == "Unlock" {
				v.Call.Args = []ast.Expr{in.mutexPtr(v.Call.Fun)}
				v.Call.Fun = &ast.SelectorExpr{X: ast.NewIdent("verifsim"), Sel: ast.NewIdent("MutexUnlock")}
			}
		}
	}
	return true
}

// preempt inserts a statement-level preemption point (verifsim.Preempt, a
// no-op unless a run turns it on) before statements that do something: calls,
// assignments, control statements. Statements that get a real yield anyway
// (channel operations, select, go, locks) are left alone.
func (in *instr) preempt(c *astutil.Cursor, st ast.Stmt) {
	if !st.Pos().IsValid() {
		// a statement generated by this tool (GoStart, an inserted Yield, ...):
		// no preemption point, in particular none before a goroutine registered
		return
	}
	switch v := st.(type) {
	case *ast.AssignStmt, *ast.IncDecStmt, *ast.ReturnStmt, *ast.IfStmt, *ast.ForStmt, *ast.SwitchStmt, *ast.TypeSwitchStmt:
		_ = v
	case *ast.ExprStmt:
		if ce, ok := v.X.(*ast.CallExpr); ok {
			if recv, _, ok := in.methodOn(ce.Fun); ok && (recv == "sync.Mutex" || recv == "sync.RWMutex" || recv == "sync.WaitGroup") {
				return
			}
			if p, name, ok := in.pkgFunc(ce.Fun); ok && p == "time" && name == "Sleep" {
				return
			}
		} else {
			return // a bare receive
		}
	case *ast.RangeStmt:
		if t := in.info.TypeOf(v.X); t != nil {
			if _, isChan := t.Underlying().(*types.Chan); isChan {
				return
			}
		}
	default:
		return
	}
	if in.hasRecv(st) && !isCompound(st) {
		return
	}
	in.useSim, in.changed = true, true
	stats["preempt"]++
	siteExpr := in.site(st, "")
	hsh := uint32(2166136261)
	for _, b := range []byte(siteExpr.(*ast.BasicLit).Value) {
		hsh = (hsh ^ uint32(b)) * 16777619
	}
	c.InsertBefore(simStmt("Preempt", &ast.BasicLit{Kind: token.INT, Value: fmt.Sprint(hsh)}, siteExpr))
}

func isCompound(st ast.Stmt) bool {
	switch st.(type) {
	case *ast.IfStmt, *ast.ForStmt, *ast.SwitchStmt, *ast.TypeSwitchStmt, *ast.RangeStmt:
		return true
	}
	return false
}

// mutexPtr returns an expression of type *sync.Mutex for the receiver of a
// Lock/Unlock method expression (x.mu.Lock -> &x.mu; p.Lock with p a pointer -> p).
func (in *instr) mutexPtr(fun ast.Expr) ast.Expr {
	se := fun.(*ast.SelectorExpr)
	if t := in.info.TypeOf(se.X); t != nil {
		if _, isPtr := t.Underlying().(*types.Pointer); isPtr {
			return se.X
		}
	}
	return &ast.UnaryExpr{Op: token.AND, X: se.X}
}

func (in *instr) fsYield(n ast.Node) ast.Stmt {
	in.useSim, in.changed = true, true
	stats["fsyield"]++
	return simStmt("Yield", in.site(n, "/fs"))
}

func (in *instr) rewriteGo(c *astutil.Cursor, v *ast.GoStmt) {
	in.useSim, in.changed = true, true
	if fl, ok := v.Call.Fun.(*ast.FuncLit); ok {
		in.ctr++
		tok := ast.NewIdent(fmt.Sprintf("verifTok%d", in.ctr))
		c.InsertBefore(&ast.AssignStmt{Lhs: []ast.Expr{tok}, Tok: token.DEFINE,
			Rhs: []ast.Expr{simCall("BeforeGo")}})
		fl.Body.List = append([]ast.Stmt{
			&ast.DeferStmt{Call: simCall("GoRecover", in.site(v, "/go"))},
			simStmt("GoStart", tok, in.site(v, "/go")),
		}, fl.Body.List...)
		stats["go.literal"]++
		return
	}
	// go f(args): needs the signature
	t := in.info.TypeOf(v.Call.Fun)
	sig, ok := t.(*types.Signature)
	if !ok {
		if t != nil {
			sig, ok = t.Underlying().(*types.Signature)
		}
	}
	if !ok || sig.Variadic() {
		warn("%s: go statement with unsupported callee signature; left as is", in.fset.Position(v.Pos()))
		return
	}
	if p, _, ok := in.pkgFunc(v.Call.Fun); ok && !strings.HasPrefix(p, modPath) {
		// library function (gossh.DiscardRequests): not a dtail goroutine
		stats["go.library"]++
		return
	}
	// { tok := BeforeGo(); f := callee; a0 := arg0 ...; go func() { GoStart(tok, site); f(a0, ...) }() }
	in.ctr++
	n := in.ctr
	tok := ast.NewIdent(fmt.Sprintf("verifTok%d", n))
	fv := ast.NewIdent(fmt.Sprintf("verifF%d", n))
	stmts := []ast.Stmt{
		&ast.AssignStmt{Lhs: []ast.Expr{tok}, Tok: token.DEFINE, Rhs: []ast.Expr{simCall("BeforeGo")}},
		&ast.AssignStmt{Lhs: []ast.Expr{fv}, Tok: token.DEFINE, Rhs: []ast.Expr{v.Call.Fun}},
	}
	var callArgs []ast.Expr
	for i, a := range v.Call.Args {
		if _, isLit := a.(*ast.BasicLit); isLit {
			callArgs = append(callArgs, a)
			continue
		}
		av := ast.NewIdent(fmt.Sprintf("verifA%d_%d", n, i))
		stmts = append(stmts, &ast.AssignStmt{Lhs: []ast.Expr{av}, Tok: token.DEFINE, Rhs: []ast.Expr{a}})
		callArgs = append(callArgs, av)
	}
	body := &ast.BlockStmt{List: []ast.Stmt{
		&ast.DeferStmt{Call: simCall("GoRecover", in.site(v, "/go"))},
		simStmt("GoStart", tok, in.site(v, "/go")),
		&ast.ExprStmt{X: &ast.CallExpr{Fun: fv, Args: callArgs}},
	}}
	stmts = append(stmts, &ast.GoStmt{Call: &ast.CallExpr{Fun: &ast.FuncLit{
		Type: &ast.FuncType{Params: &ast.FieldList{}}, Body: body}}})
	c.Replace(&ast.BlockStmt{List: stmts})
	stats["go.named"]++
}

func (in *instr) post(c *astutil.Cursor) bool {
	switch v := c.Node().(type) {
	case *ast.SelectStmt:
		if c.Index() >= 0 {
			if repl := in.rewriteSelect(v); repl != nil {
				c.Replace(repl)
				stats["select"]++
			}
		}
	case *ast.RangeStmt:
		if c.Index() >= 0 {
			if t := in.info.TypeOf(v.X); t != nil {
				if _, isMap := t.Underlying().(*types.Map); isMap {
					if repl := in.rewriteMapRange(v); repl != nil {
						c.Replace(repl)
						stats["maprange"]++
					}
				}
			}
		}
	}
	return true
}

// rewriteMapRange turns `for k, v := range m { body }` into
//
//	{ verifM := m; for _, verifK := range verifsim.Keys(verifM, site) {
//	    k := verifK; v, verifOk := verifM[k]; if !verifOk { continue }; body } }
func (in *instr) rewriteMapRange(r *ast.RangeStmt) ast.Stmt {
	if r.Tok != token.DEFINE && (r.Key != nil || r.Value != nil) {
		warn("%s: map range with '=' assignment; not rewritten", in.fset.Position(r.Pos()))
		return nil
	}
	in.ctr++
	in.useSim, in.changed = true, true
	mv := ast.NewIdent(fmt.Sprintf("verifM%d", in.ctr))
	kv := ast.NewIdent(fmt.Sprintf("verifK%d", in.ctr))
	okv := ast.NewIdent(fmt.Sprintf("verifOk%d", in.ctr))
	var pre []ast.Stmt
	keyExpr := ast.Expr(kv)
	if id, ok := r.Key.(*ast.Ident); ok && id.Name != "_" {
		pre = append(pre, &ast.AssignStmt{Lhs: []ast.Expr{ast.NewIdent(id.Name)}, Tok: token.DEFINE, Rhs: []ast.Expr{kv}})
		keyExpr = ast.NewIdent(id.Name)
	}
	valName := "_"
	if id, ok := r.Value.(*ast.Ident); ok && id.Name != "_" {
		valName = id.Name
	}
	pre = append(pre,
		&ast.AssignStmt{Lhs: []ast.Expr{ast.NewIdent(valName), okv}, Tok: token.DEFINE,
			Rhs: []ast.Expr{&ast.IndexExpr{X: mv, Index: keyExpr}}},
		&ast.IfStmt{Cond: &ast.UnaryExpr{Op: token.NOT, X: okv},
			Body: &ast.BlockStmt{List: []ast.Stmt{&ast.BranchStmt{Tok: token.CONTINUE}}}},
	)
	body := &ast.BlockStmt{List: append(pre, r.Body.List...)}
	loop := &ast.RangeStmt{Key: ast.NewIdent("_"), Value: kv, Tok: token.DEFINE,
		X: simCall("Keys", mv, in.site(r, "/map")), Body: body}
	return &ast.BlockStmt{List: []ast.Stmt{
		&ast.AssignStmt{Lhs: []ast.Expr{mv}, Tok: token.DEFINE, Rhs: []ast.Expr{r.X}},
		loop,
	}}
}

// rewriteSelect turns
//
//	select { case c1: B1; case c2: B2 [default: BD] }
//
// into a controller-prioritised poll followed (if there was no default) by a
// blocking copy of the original statement.
func (in *instr) rewriteSelect(s *ast.SelectStmt) ast.Stmt {
	var comm []*ast.CommClause
	var def *ast.CommClause
	for _, st := range s.Body.List {
		cc := st.(*ast.CommClause)
		if cc.Comm == nil {
			def = cc
		} else {
			comm = append(comm, cc)
		}
	}
	if len(comm) < 2 {
		return nil
	}
	in.ctr++
	in.useSim, in.changed = true, true
	selVar := ast.NewIdent(fmt.Sprintf("verifSel%d", in.ctr))
	label := ast.NewIdent(fmt.Sprintf("verifRetry%d", in.ctr))
	siteExpr := in.site(s, "/sel")

	var blocking *ast.SelectStmt
	if def == nil {
		blocking = in.deepCopySelect(s)
	}
	for i, cc := range comm {
		on := &ast.CallExpr{Fun: &ast.SelectorExpr{X: selVar, Sel: ast.NewIdent("On")},
			Args: []ast.Expr{&ast.BasicLit{Kind: token.INT, Value: fmt.Sprint(i)}}}
		switch st := cc.Comm.(type) {
		case *ast.SendStmt:
			st.Chan = maskCall("MaskS", on, st.Chan)
		case *ast.ExprStmt:
			u := st.X.(*ast.UnaryExpr)
			u.X = maskCall("MaskR", on, u.X)
		case *ast.AssignStmt:
			u := st.Rhs[0].(*ast.UnaryExpr)
			u.X = maskCall("MaskR", on, u.X)
		}
	}
	next := &ast.IfStmt{
		Cond: &ast.CallExpr{Fun: &ast.SelectorExpr{X: selVar, Sel: ast.NewIdent("Next")}},
		Body: &ast.BlockStmt{List: []ast.Stmt{&ast.BranchStmt{Tok: token.GOTO, Label: label}}},
	}
	if def != nil {
		def.Body = append([]ast.Stmt{next}, def.Body...)
	} else {
		s.Body.List = append(s.Body.List, &ast.CommClause{Comm: nil,
			// no yield between the last poll and the blocking copy: nothing may
			// become ready in between, else the runtime's random choice among
			// several ready cases would escape the controller
			Body: []ast.Stmt{next, blocking}})
	}
	decl := &ast.AssignStmt{Lhs: []ast.Expr{selVar}, Tok: token.DEFINE,
		Rhs: []ast.Expr{simCall("BeginSelect", siteExpr,
			&ast.BasicLit{Kind: token.INT, Value: fmt.Sprint(len(comm))})}}
	return &ast.BlockStmt{List: []ast.Stmt{decl, &ast.LabeledStmt{Label: label, Stmt: s}}}
}

func maskCall(fn string, on, ch ast.Expr) ast.Expr {
	return &ast.CallExpr{Fun: &ast.SelectorExpr{X: ast.NewIdent("verifsim"), Sel: ast.NewIdent(fn)},
		Args: []ast.Expr{on, ch}}
}

func (in *instr) deepCopySelect(s *ast.SelectStmt) *ast.SelectStmt {
	var buf bytes.Buffer
	if err := format.Node(&buf, in.fset, s); err != nil {
		panic(err)
	}
	src := "package p\nfunc f() {\n" + buf.String() + "\n}"
	f, err := parser.ParseFile(token.NewFileSet(), "", src, 0)
	if err != nil {
		panic(fmt.Sprintf("%v\n%s", err, src))
	}
	sel := f.Decls[0].(*ast.FuncDecl).Body.List[0].(*ast.SelectStmt)
	clearPos(sel)
	ast.Inspect(sel, func(x ast.Node) bool {
		switch v := x.(type) {
		case *ast.LabeledStmt:
			if strings.HasPrefix(v.Label.Name, "verifRetry") {
				v.Label.Name += "b"
			}
		case *ast.BranchStmt:
			if v.Label != nil && strings.HasPrefix(v.Label.Name, "verifRetry") {
				v.Label.Name += "b"
			}
		case *ast.AssignStmt:
			// nested rewritten selects/maps declare verifSelN etc: rename to keep
			// the copy independent (scoping makes this unnecessary, harmless)
		}
		return true
	})
	return sel
}

// clearPos zeroes all positions of a subtree parsed with a foreign FileSet.
func clearPos(n ast.Node) {
	ast.Inspect(n, func(x ast.Node) bool {
		switch v := x.(type) {
		case *ast.Ident:
			v.NamePos = token.NoPos
		case *ast.BasicLit:
			v.ValuePos = token.NoPos
		case *ast.CallExpr:
			v.Lparen, v.Rparen, v.Ellipsis = token.NoPos, token.NoPos, tokenIf(v.Ellipsis)
		case *ast.SelectStmt:
			v.Select = token.NoPos
		case *ast.CommClause:
			v.Case, v.Colon = token.NoPos, token.NoPos
		case *ast.BlockStmt:
			v.Lbrace, v.Rbrace = token.NoPos, token.NoPos
		case *ast.UnaryExpr:
			v.OpPos = token.NoPos
		case *ast.BinaryExpr:
			v.OpPos = token.NoPos
		case *ast.SendStmt:
			v.Arrow = token.NoPos
		case *ast.AssignStmt:
			v.TokPos = token.NoPos
		case *ast.ReturnStmt:
			v.Return = token.NoPos
		case *ast.BranchStmt:
			v.TokPos = token.NoPos
		case *ast.IfStmt:
			v.If = token.NoPos
		case *ast.ForStmt:
			v.For = token.NoPos
		case *ast.RangeStmt:
			v.For, v.TokPos, v.Range = token.NoPos, token.NoPos, token.NoPos
		case *ast.SwitchStmt:
			v.Switch = token.NoPos
		case *ast.CaseClause:
			v.Case, v.Colon = token.NoPos, token.NoPos
		case *ast.CompositeLit:
			v.Lbrace, v.Rbrace = token.NoPos, token.NoPos
		case *ast.ParenExpr:
			v.Lparen, v.Rparen = token.NoPos, token.NoPos
		case *ast.IndexExpr:
			v.Lbrack, v.Rbrack = token.NoPos, token.NoPos
		case *ast.StarExpr:
			v.Star = token.NoPos
		case *ast.LabeledStmt:
			v.Colon = token.NoPos
		case *ast.DeferStmt:
			v.Defer = token.NoPos
		case *ast.GoStmt:
			v.Go = token.NoPos
		case *ast.FuncLit:
		case *ast.FuncType:
			v.Func = token.NoPos
		case *ast.FieldList:
			v.Opening, v.Closing = token.NoPos, token.NoPos
		case *ast.KeyValueExpr:
			v.Colon = token.NoPos
		case *ast.IncDecStmt:
			v.TokPos = token.NoPos
		}
		return true
	})
}

// tokenIf keeps "has ellipsis" information (any valid position) while
// dropping the foreign position value.
func tokenIf(p token.Pos) token.Pos {
	if p.IsValid() {
		return token.Pos(1)
	}
	return token.NoPos
}
