#!/bin/bash
# usage: confirm_demo_sh.sh <worktree> <change-dir> <binary-name>
# In the agent's worktree: demo.sh passes at HEAD, fails with the patch; suite passes with the patch.
set -u
wt=$1; cd=$2; bin=$3
export GOFLAGS=-mod=mod GOPROXY=off GOSUMDB=off
cd $wt; git checkout -q -- .; ok=1
go build -o ./$bin ./cmd/$bin && (cd $wt && sh $cd/demo.sh ./$bin > /tmp/demo.out 2>&1) && echo "demo without change: PASS" || { echo "demo without change: FAIL (unexpected)"; tail -5 /tmp/demo.out; ok=0; }
git apply $cd/patch.diff || { echo "patch does not apply"; ok=0; }
go build ./... && go build -o ./$bin ./cmd/$bin || { echo build fails; ok=0; }
(sh $cd/demo.sh ./$bin > /tmp/demo.out 2>&1) && { echo "demo with change: PASS (unexpected)"; ok=0; } || echo "demo with change: FAIL (expected): $(grep -m2 FAIL /tmp/demo.out | tr '\n' ' ' | cut -c1-200)"
go test -vet=off -count=1 ./... > /tmp/confirm.out 2>&1 && echo "existing suite with change: PASS" || { echo "existing suite with change: FAIL"; ok=0; }
rm -f ./$bin; git checkout -q -- .
[ $ok = 1 ] && echo "CONFIRMED $cd" || echo "NOT CONFIRMED $cd"
